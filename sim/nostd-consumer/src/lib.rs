//! A `#![no_std]` consumer of the `elf` crate with default features disabled.
//! Built with `-Zbuild-std=core --target x86_64-unknown-none`: only `core` is in the
//! sysroot, so any dependency of `elf` on `alloc` or `std` fails to resolve.
#![no_std]

use elf::endian::AnyEndian;
use elf::ElfBytes;

pub fn section_count(data: &[u8]) -> usize {
    match ElfBytes::<AnyEndian>::minimal_parse(data) {
        Ok(f) => f.section_headers().map(|t| t.len()).unwrap_or(0),
        Err(_) => 0,
    }
}
