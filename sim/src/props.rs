//! Per-property dispatch: what run index `r` of property P does, how a scenario is judged
//! (used by replay and minimisation), budgets per tier.

use crate::equiv::Violation;
use crate::gen::Samples;
use crate::json::J;
use crate::report::Report;
use crate::scen::Scenario;

#[derive(Clone, Copy, Debug)]
pub struct Budget {
    /// total run indices
    pub runs: u64,
    /// C17: indices below this are exhaustive single-fault workloads
    pub exhaustive: u64,
    /// C18: indices below this are generated images; the rest are sample sweeps
    pub images: u64,
    /// C08: indices at or above this are sweep / huge cases
    pub base_runs: u64,
}

pub fn budget(prop: &str, tier: &str, samples: &Samples) -> Budget {
    let thorough = tier == "thorough";
    let scale = std::env::var("ELFSIM_SCALE")
        .ok()
        .and_then(|s| s.parse::<f64>().ok())
        .unwrap_or(1.0);
    let sc = |n: u64| -> u64 { ((n as f64) * scale).ceil() as u64 };
    match prop {
        "C06" => {
            let n = sc(if thorough { 20_000_000 } else { 1_000_000 });
            Budget { runs: n, exhaustive: 0, images: 0, base_runs: n }
        }
        #[cfg(feature = "stream")]
        "C07" => {
            let n = sc(if thorough { 60_000_000 } else { 2_000_000 });
            // + huge-table images (> 0xff00 sections, the three ways of naming the shstrtab)
            let extra = crate::sweep::sample_cases(samples)
                + crate::sweep::byte_pressure_cases(thorough)
                + crate::sweep::sweep_cases()
                + if thorough { 48 } else { 12 };
            Budget { runs: n + extra, exhaustive: 0, images: 0, base_runs: n }
        }
        #[cfg(feature = "stream")]
        "C08" => {
            let n = sc(if thorough { 60_000_000 } else { 2_000_000 });
            let extra = crate::sweep::sample_cases(samples)
                + crate::sweep::byte_pressure_cases(thorough)
                + crate::sweep::sweep_cases()
                + if thorough { crate::sweep::HUGE_CASES } else { 6 };
            Budget { runs: n + extra, exhaustive: 0, images: 0, base_runs: n }
        }
        #[cfg(feature = "stream")]
        "C17" => {
            let _ = sc(1);
            let ex = crate::faults::generated_exhaustive(tier)
                + crate::faults::sample_workloads(samples);
            let multi = sc(if thorough { 30_000_000 } else { 1_000_000 });
            Budget { runs: ex + multi, exhaustive: ex, images: 0, base_runs: ex + multi }
        }
        #[cfg(feature = "stream")]
        "C18" => {
            let imgs = sc(if thorough { 200_000 } else { 6_000 });
            let sweeps = crate::props::sample_sweep_units(samples, thorough).len() as u64;
            Budget { runs: imgs + sweeps, exhaustive: 0, images: imgs, base_runs: imgs + sweeps }
        }
        _ => {
            let _ = samples;
            Budget { runs: 0, exhaustive: 0, images: 0, base_runs: 0 }
        }
    }
}

/// Units of the sample-object sweep of C18: (sample variant index, relaid?, lo, hi).
/// Quick: one unit per sample variant with boundary-biased points (lo == hi == 0).
#[cfg(feature = "stream")]
pub fn sample_sweep_units(samples: &Samples, thorough: bool) -> Vec<(usize, bool, usize, usize)> {
    let mut v = Vec::new();
    for (relaid, pool) in [(false, &samples.raw), (true, &samples.relaid)] {
        for (i, (_, b)) in pool.iter().enumerate() {
            // quick: every prefix of the samples up to 20 KiB; boundary-biased above
            if thorough || b.len() <= 20_000 {
                let chunk = 2048;
                let mut lo = 0;
                while lo < b.len() {
                    let hi = (lo + chunk).min(b.len());
                    v.push((i, relaid, lo, hi));
                    lo = hi;
                }
            } else {
                v.push((i, relaid, 0, 0));
            }
        }
    }
    v
}

/// Execute run index `r`. Returns a (non-minimised) failing scenario, if any.
pub fn run_index(
    prop: &str,
    tier: &str,
    seed: u64,
    r: u64,
    b: &Budget,
    samples: &Samples,
    rep: &mut Report,
) -> Option<(Scenario, Violation)> {
    rep.runs += 1;
    match prop {
        "C06" => crate::noalloc::run_one(seed, r, tier, samples, rep),
        #[cfg(feature = "stream")]
        "C07" | "C08" => {
            use crate::equiv::*;
            let sc = if r >= b.base_runs {
                crate::sweep::build_extra_scenario(prop, seed, r - b.base_runs, tier, samples)
            } else {
                build_scenario(prop, seed, r, tier, samples)
            };
            let run = execute(&sc);
            rep.evaluations += 1;
            let mut f = RunFacts::default();
            let v = if prop == "C07" {
                check_c07(&sc, &run, &mut f)
            } else {
                check_c08(&sc, &run, &mut f)
            };
            collect_facts(&sc, &run, &mut f);
            rep.add("sim_time_io_events", f.io_events);
            crate::report::add_fault_counters(rep, &f.counters);
            for (k, n) in f.probes.iter() {
                rep.add(&format!("probe.{}", k), *n);
            }
            for i in 0..17 {
                for j in 0..5 {
                    rep.op_grid[i][j] += f.op_grid[i][j] as u64;
                }
            }
            rep.add("scoped_out_queries", f.scoped_out);
            rep.add("compared_queries", f.compared);
            rep.add("drain_panics", f.drain_panics);
            rep.add("alloc_calls_observed", f.alloc_calls);
            rep.max("max_alloc_over_len_milli", f.max_alloc_over_len_milli);
            if f.nontrivial {
                rep.sigs.push(f.signature);
            }
            if f.nontrivial && (r % 9973 == 0 || rep.samples.is_empty()) {
                rep.sample(sample_json(&sc, &run));
            }
            v.map(|v| (sc, v))
        }
        #[cfg(feature = "stream")]
        "C17" => {
            let out = if r < b.exhaustive {
                crate::faults::run_exhaustive(seed, r, tier, samples, tier == "thorough", rep)
            } else {
                crate::faults::run_multi(seed, r, tier, samples, rep)
            };
            out.violation
        }
        #[cfg(feature = "stream")]
        "C18" => {
            let fixed = if r >= b.images {
                let units = sample_sweep_units(samples, tier == "thorough");
                units.get((r - b.images) as usize).map(|&(i, relaid, lo, hi)| {
                    let pool = if relaid { &samples.relaid } else { &samples.raw };
                    let (n, bytes) = &pool[i];
                    (
                        format!("{}{}", n, if relaid { "#relaid" } else { "" }),
                        bytes.clone(),
                        lo,
                        hi,
                    )
                })
            } else {
                None
            };
            crate::prefix::run_image(seed, r, tier, samples, fixed, rep).violation
        }
        _ => None,
    }
}

#[cfg(feature = "stream")]
fn sample_json(sc: &Scenario, run: &crate::equiv::EquivRun) -> J {
    J::obj()
        .with("image", sc.recipe.clone())
        .with("endian_spec", J::s(sc.spec.name()))
        .with("reader_profile", J::Str(sc.reader.profile.name()))
        .with("reader_init_pos", J::u(sc.reader.init_pos))
        .with(
            "ops",
            J::Arr(sc.ops.iter().map(|o| J::s(o.op.name())).collect()),
        )
        .with(
            "outcomes",
            J::Arr(
                run.stream
                    .steps
                    .iter()
                    .map(|s| {
                        J::Str(format!(
                            "{}:stream={},slice={},io_events={},max_alloc={}",
                            s.id,
                            s.out.tag.name(),
                            run.slice[s.op_index].tag.name(),
                            s.io_events,
                            s.alloc.max
                        ))
                    })
                    .collect(),
            ),
        )
        .with(
            "first_events",
            J::Arr(
                run.stream
                    .events
                    .iter()
                    .take(10)
                    .map(crate::reader::event_json)
                    .collect(),
            ),
        )
}

/// Re-judge a scenario from scratch (replay, minimisation).
pub fn judge(sc: &Scenario) -> Option<Violation> {
    match sc.prop.as_str() {
        "C06" => crate::noalloc::judge(sc),
        #[cfg(feature = "stream")]
        "C07" => {
            let run = crate::equiv::execute(sc);
            let mut f = crate::equiv::RunFacts::default();
            crate::equiv::check_c07(sc, &run, &mut f)
        }
        #[cfg(feature = "stream")]
        "C08" => {
            let run = crate::equiv::execute(sc);
            let mut f = crate::equiv::RunFacts::default();
            crate::equiv::check_c08(sc, &run, &mut f)
        }
        #[cfg(feature = "stream")]
        "C17" => crate::faults::judge(sc),
        #[cfg(feature = "stream")]
        "C18" => crate::prefix::judge(sc),
        _ => None,
    }
}

/// Scenario of run index r without executing it (used for process-abort replay files).
pub fn scenario_of(prop: &str, tier: &str, seed: u64, r: u64, samples: &Samples) -> Option<Scenario> {
    let b = budget(prop, tier, samples);
    match prop {
        "C06" => Some(crate::noalloc::build_scenario(seed, r, tier, samples).0),
        #[cfg(feature = "stream")]
        "C07" | "C08" => Some(if r >= b.base_runs {
            crate::sweep::build_extra_scenario(prop, seed, r - b.base_runs, tier, samples)
        } else {
            crate::equiv::build_scenario(prop, seed, r, tier, samples)
        }),
        #[cfg(feature = "stream")]
        "C17" => Some(match crate::faults::sample_workload_index(r, tier, samples) {
            Some(i) => crate::faults::build_sample_workload(seed, r, tier, samples, i),
            None => crate::faults::build_workload(seed, r, tier, samples),
        }),
        #[cfg(feature = "stream")]
        "C18" => Some(crate::prefix::build_image_scenario(seed, r, tier, samples).0),
        _ => {
            let _ = b;
            None
        }
    }
}
