//! Image generator: a small structural model -> ELF bytes, for both classes and byte
//! orders; layout policies; extended numbering with small real counts; overlay (aliasing)
//! sections; corruption operators; sample objects (intact, corrupted, re-laid-out).

use crate::hdr::{self, Ehdr, Model, Phdr, Shdr};
use crate::json::J;
use crate::rng::Rng;

#[derive(Clone, Copy, Debug, PartialEq, Eq)]
pub enum Layout {
    HeadersFirst,
    HeadersLast,
    Interleaved,
}

impl Layout {
    pub fn name(self) -> &'static str {
        match self {
            Layout::HeadersFirst => "headers-first",
            Layout::HeadersLast => "headers-last",
            Layout::Interleaved => "interleaved",
        }
    }
}

/// What the workload wants from the generator.
#[derive(Clone, Copy, Debug, PartialEq, Eq)]
pub enum Bias {
    /// C07: balanced, with overlay sections
    Equiv,
    /// C08: headers that lie, padding between tables
    Lies,
    /// C17: small, valid-ish images so histories run deep
    Faults,
    /// C18: headers-first mostly, small (every prefix is parsed)
    Prefix,
    /// C06: everything, incl. hash tables
    Slice,
}

#[derive(Clone, Debug)]
pub struct Image {
    pub bytes: Vec<u8>,
    /// informational recipe (source, parameters, corruptions)
    pub recipe: J,
    /// structural class id for run signatures
    pub class_sig: u64,
    /// intact generated image: every declared range lies inside the file
    pub self_contained: bool,
}

pub struct Samples {
    pub raw: Vec<(String, Vec<u8>)>,
    pub relaid: Vec<(String, Vec<u8>)>,
}

impl Samples {
    pub fn load() -> Samples {
        let dir = std::env::var("ELFSIM_REPO").unwrap_or_else(|_| "/repo".to_string())
            + "/sample-objects";
        let mut raw = Vec::new();
        if let Ok(rd) = std::fs::read_dir(&dir) {
            let mut names: Vec<String> = rd
                .filter_map(|e| e.ok())
                .filter_map(|e| e.file_name().into_string().ok())
                .collect();
            names.sort();
            for n in names {
                if let Ok(b) = std::fs::read(format!("{}/{}", dir, n)) {
                    if b.len() >= 52 && b[..4] == [0x7f, b'E', b'L', b'F'] {
                        raw.push((n, b));
                    }
                }
            }
        }
        let relaid = raw
            .iter()
            .filter_map(|(n, b)| hdr::relayout_headers_first(b).map(|r| (n.clone(), r)))
            .collect();
        Samples { raw, relaid }
    }
}

struct W {
    c64: bool,
    be: bool,
    /// multiplier for entry counts (notes per section, relocations, version definitions and
    /// needs, chain lengths): 1 normally, see `GenParams::scale`
    scale: usize,
}

impl W {
    fn p16(&self, o: &mut Vec<u8>, v: u16) {
        if self.be {
            o.extend_from_slice(&v.to_be_bytes())
        } else {
            o.extend_from_slice(&v.to_le_bytes())
        }
    }
    fn p32(&self, o: &mut Vec<u8>, v: u32) {
        if self.be {
            o.extend_from_slice(&v.to_be_bytes())
        } else {
            o.extend_from_slice(&v.to_le_bytes())
        }
    }
    fn p64(&self, o: &mut Vec<u8>, v: u64) {
        if self.be {
            o.extend_from_slice(&v.to_be_bytes())
        } else {
            o.extend_from_slice(&v.to_le_bytes())
        }
    }
    fn word(&self, o: &mut Vec<u8>, v: u64) {
        if self.c64 {
            self.p64(o, v)
        } else {
            self.p32(o, v as u32)
        }
    }
}

#[derive(Clone, Debug, Default)]
struct Sec {
    name: String,
    typ: u32,
    flags: u64,
    data: Vec<u8>,
    link: Option<String>,
    info: u32,
    align: u64,
    entsize: u64,
    nobits: u64,
    /// alias another section's byte range instead of owning data: (target name, mode)
    alias: Option<(String, u8)>,
}

const WORDS: [&str; 24] = [
    "memcpy", "malloc", "free", "printf", "main", "_start", "init", "fini", "errno", "open",
    "close", "read", "write", "environ", "stdout", "stderr", "qsort", "strlen", "abort", "exit",
    "dlopen", "dlsym", "getenv", "puts",
];

fn sysv_hash(name: &[u8]) -> u32 {
    let mut h: u32 = 0;
    for &c in name {
        h = (h << 4).wrapping_add(c as u32);
        let g = h & 0xf000_0000;
        if g != 0 {
            h ^= g >> 24;
        }
        h &= !g;
    }
    h
}

fn gnu_hash(name: &[u8]) -> u32 {
    let mut h: u32 = 5381;
    for &c in name {
        h = h.wrapping_mul(33).wrapping_add(c as u32);
    }
    h
}

struct StrTab {
    data: Vec<u8>,
}
impl StrTab {
    fn new() -> StrTab {
        StrTab { data: vec![0] }
    }
    fn add(&mut self, s: &str) -> u32 {
        let off = self.data.len() as u32;
        self.data.extend_from_slice(s.as_bytes());
        self.data.push(0);
        off
    }
}

#[derive(Clone, Debug)]
struct SymSpec {
    name: String,
    defined: bool,
    info: u8,
    other: u8,
    shndx: u16,
    value: u64,
    size: u64,
}

fn emit_syms(w: &W, syms: &[SymSpec], strs: &mut StrTab) -> Vec<u8> {
    let mut o = Vec::new();
    for (i, s) in syms.iter().enumerate() {
        let name = if i == 0 { 0 } else { strs.add(&s.name) };
        if w.c64 {
            w.p32(&mut o, name);
            o.push(s.info);
            o.push(s.other);
            w.p16(&mut o, s.shndx);
            w.p64(&mut o, s.value);
            w.p64(&mut o, s.size);
        } else {
            w.p32(&mut o, name);
            w.p32(&mut o, s.value as u32);
            w.p32(&mut o, s.size as u32);
            o.push(s.info);
            o.push(s.other);
            w.p16(&mut o, s.shndx);
        }
    }
    o
}

fn gen_syms(rng: &mut Rng, n: usize, tagc: &str) -> Vec<SymSpec> {
    let mut v = vec![SymSpec {
        name: String::new(),
        defined: false,
        info: 0,
        other: 0,
        shndx: 0,
        value: 0,
        size: 0,
    }];
    for i in 0..n {
        let defined = rng.chance(3, 4);
        v.push(SymSpec {
            name: if rng.chance(1, 24) {
                // longer than any small-buffer threshold (32 / 64 / 256 / 1024)
                let want = *rng.pick(&[33usize, 65, 130, 257, 1030]);
                let mut nm = format!("{}{}{}_", rng.pick(&WORDS), tagc, i);
                while nm.len() < want {
                    nm.push((b'a' + (nm.len() % 26) as u8) as char);
                }
                nm
            } else {
                format!("{}{}{}", rng.pick(&WORDS), tagc, i)
            },
            defined,
            info: ((rng.below(3) as u8) << 4) | (rng.below(5) as u8),
            other: rng.below(4) as u8,
            shndx: if defined { 1 + rng.below(6) as u16 } else { 0 },
            value: rng.below(0x10000),
            size: rng.below(256),
        });
    }
    v
}

fn build_note(w: &W, o: &mut Vec<u8>, name: &[u8], desc: &[u8], typ: u32, align: usize) {
    w.p32(o, name.len() as u32);
    w.p32(o, desc.len() as u32);
    w.p32(o, typ);
    o.extend_from_slice(name);
    while o.len() % align != 0 {
        o.push(0);
    }
    o.extend_from_slice(desc);
    while o.len() % align != 0 {
        o.push(0);
    }
}

fn gen_notes(w: &W, rng: &mut Rng, align: usize) -> Vec<u8> {
    let mut o = Vec::new();
    let n = rng.urange(1, 4) * w.scale;
    for _ in 0..n {
        match rng.below(4) {
            0 => {
                let mut d = Vec::new();
                for _ in 0..4 {
                    w.p32(&mut d, rng.below(8) as u32);
                }
                build_note(w, &mut o, b"GNU\0", &d, 1, align);
            }
            1 => {
                let mut d = vec![0u8; rng.urange(4, 20)];
                rng.fill(&mut d);
                build_note(w, &mut o, b"GNU\0", &d, 3, align);
            }
            2 => {
                let mut d = vec![0u8; rng.urange(0, 24)];
                rng.fill(&mut d);
                build_note(w, &mut o, b"stapsdt\0", &d, rng.below(6) as u32, align);
            }
            _ => {
                let mut nm = vec![0u8; rng.urange(0, 9)];
                rng.fill(&mut nm);
                let mut d = vec![0u8; rng.urange(0, 12)];
                rng.fill(&mut d);
                build_note(w, &mut o, &nm, &d, rng.next_u64() as u32, align);
            }
        }
    }
    o
}

fn gen_dynamic(w: &W, rng: &mut Rng) -> Vec<u8> {
    let mut o = Vec::new();
    let n = rng.urange(1, 10);
    for _ in 0..n {
        w.word(&mut o, rng.below(36));
        w.word(&mut o, rng.below(0x10000));
    }
    w.word(&mut o, 0);
    w.word(&mut o, 0);
    o
}

fn gen_rel(w: &W, rng: &mut Rng, rela: bool, nsyms: usize) -> Vec<u8> {
    let mut o = Vec::new();
    let n = rng.urange(0, 8) * w.scale;
    for _ in 0..n {
        let off = rng.below(0x4000);
        let sym = rng.below(nsyms.max(1) as u64);
        let typ = rng.below(40);
        w.word(&mut o, off);
        if w.c64 {
            w.p64(&mut o, (sym << 32) | typ);
        } else {
            w.p32(&mut o, ((sym << 8) | (typ & 0xff)) as u32);
        }
        if rela {
            w.word(&mut o, rng.next_u64() >> 40);
        }
    }
    o
}

fn gen_sysv_hash(w: &W, rng: &mut Rng, syms: &[SymSpec]) -> Vec<u8> {
    let nchain = syms.len();
    // scaled images: half of them with a single bucket, i.e. one chain through every symbol
    let nbucket = if w.scale > 1 && rng.chance(1, 2) { 1 } else { rng.urange(1, 5) };
    let mut buckets = vec![0u32; nbucket];
    let mut chains = vec![0u32; nchain];
    for (i, s) in syms.iter().enumerate().skip(1) {
        let b = (sysv_hash(s.name.as_bytes()) as usize) % nbucket;
        chains[i] = buckets[b];
        buckets[b] = i as u32;
    }
    let mut o = Vec::new();
    w.p32(&mut o, nbucket as u32);
    w.p32(&mut o, nchain as u32);
    for b in buckets {
        w.p32(&mut o, b);
    }
    for c in chains {
        w.p32(&mut o, c);
    }
    o
}

/// Well-formed GNU hash table; reorders `syms` (undefined first, defined sorted by bucket).
fn gen_gnu_hash(w: &W, rng: &mut Rng, syms: &mut Vec<SymSpec>) -> Vec<u8> {
    let nbucket = if w.scale > 1 && rng.chance(1, 2) { 1 } else { rng.urange(1, 4) as u32 };
    let first = syms.remove(0);
    let (mut undef, mut def): (Vec<SymSpec>, Vec<SymSpec>) =
        syms.drain(..).partition(|s| !s.defined);
    def.sort_by_key(|s| gnu_hash(s.name.as_bytes()) % nbucket);
    let symoffset = 1 + undef.len();
    syms.push(first);
    syms.append(&mut undef);
    syms.extend(def.iter().cloned());
    let nbloom: u32 = 1 << rng.below(2);
    let shift: u32 = rng.range(3, 7) as u32;
    let bits: u32 = if w.c64 { 64 } else { 32 };
    let mut bloom = vec![0u64; nbloom as usize];
    let mut buckets = vec![0u32; nbucket as usize];
    let mut chain = vec![0u32; def.len()];
    for (i, s) in def.iter().enumerate() {
        let h = gnu_hash(s.name.as_bytes());
        let word = ((h / bits) % nbloom) as usize;
        bloom[word] |= 1u64 << (h % bits);
        bloom[word] |= 1u64 << ((h >> shift) % bits);
        let b = (h % nbucket) as usize;
        if buckets[b] == 0 {
            buckets[b] = (symoffset + i) as u32;
        }
        chain[i] = h & !1;
        let last_in_bucket = i + 1 == def.len()
            || gnu_hash(def[i + 1].name.as_bytes()) % nbucket != h % nbucket;
        if last_in_bucket {
            chain[i] |= 1;
        }
    }
    let mut o = Vec::new();
    w.p32(&mut o, nbucket);
    w.p32(&mut o, symoffset as u32);
    w.p32(&mut o, nbloom);
    w.p32(&mut o, shift);
    for b in bloom {
        w.word(&mut o, b);
    }
    for b in buckets {
        w.p32(&mut o, b);
    }
    for c in chain {
        w.p32(&mut o, c);
    }
    o
}

struct Versions {
    versym: Vec<u8>,
    verneed: Vec<u8>,
    need_cnt: u32,
    verdef: Vec<u8>,
    def_cnt: u32,
}

fn gen_versions(w: &W, rng: &mut Rng, nsyms: usize, strs: &mut StrTab) -> Versions {
    let ndefs = rng.urange(0, 3) * w.scale;
    let nfiles = rng.urange(0, 2) * w.scale;
    // verdef
    let mut verdef = Vec::new();
    for d in 0..ndefs {
        let naux = if w.scale > 1 && rng.chance(1, 8) { rng.urange(1, 2) * w.scale } else { rng.urange(1, 2) };
        let vd_next = if d + 1 == ndefs { 0 } else { 20 + 8 * naux };
        w.p16(&mut verdef, 1);
        w.p16(&mut verdef, rng.below(2) as u16);
        w.p16(&mut verdef, (d + 1) as u16);
        w.p16(&mut verdef, naux as u16);
        let vname = format!("VER_{}.{}", d, rng.below(9));
        w.p32(&mut verdef, sysv_hash(vname.as_bytes()));
        w.p32(&mut verdef, 20);
        w.p32(&mut verdef, vd_next as u32);
        for a in 0..naux {
            let nm = if a == 0 {
                strs.add(&vname)
            } else {
                strs.add(&format!("VER_PARENT_{}", d))
            };
            w.p32(&mut verdef, nm);
            w.p32(&mut verdef, if a + 1 == naux { 0 } else { 8 });
        }
    }
    // verneed
    let mut verneed = Vec::new();
    let mut next_other = (ndefs + 2) as u16;
    let mut others: Vec<u16> = Vec::new();
    for f in 0..nfiles {
        let naux = if w.scale > 1 && rng.chance(1, 8) { rng.urange(1, 3) * w.scale } else { rng.urange(1, 3) };
        let vn_next = if f + 1 == nfiles { 0 } else { 16 + 16 * naux };
        w.p16(&mut verneed, 1);
        w.p16(&mut verneed, naux as u16);
        w.p32(&mut verneed, strs.add(&format!("libdep{}.so.{}", f, rng.below(9))));
        w.p32(&mut verneed, 16);
        w.p32(&mut verneed, vn_next as u32);
        for a in 0..naux {
            let vname = format!("DEP_{}_{}", f, a);
            w.p32(&mut verneed, sysv_hash(vname.as_bytes()));
            w.p16(&mut verneed, rng.below(2) as u16);
            w.p16(&mut verneed, next_other);
            others.push(next_other);
            next_other += 1;
            w.p32(&mut verneed, strs.add(&vname));
            w.p32(&mut verneed, if a + 1 == naux { 0 } else { 16 });
        }
    }
    // versym
    let mut versym = Vec::new();
    for i in 0..nsyms {
        let v: u16 = if i == 0 {
            0
        } else {
            match rng.below(4) {
                0 => rng.below(2) as u16,
                1 if ndefs > 0 => 1 + rng.below(ndefs as u64) as u16,
                2 if !others.is_empty() => *rng.pick(&others),
                _ => 1,
            }
        };
        let hidden = if rng.chance(1, 6) { 0x8000 } else { 0 };
        w.p16(&mut versym, v | hidden);
    }
    Versions {
        versym,
        verneed,
        need_cnt: nfiles as u32,
        verdef,
        def_cnt: ndefs as u32,
    }
}

pub const SHF_ALLOC: u64 = 2;

/// Parameters of one generated image (recorded in the recipe).
#[derive(Clone, Debug)]
pub struct GenParams {
    pub c64: bool,
    pub be: bool,
    pub layout: Layout,
    pub with_shdrs: bool,
    pub with_phdrs: bool,
    pub symtab: bool,
    pub dynsym: bool,
    pub dynamic: bool,
    pub sysv_hash: bool,
    pub gnu_hash: bool,
    pub versions: bool,
    pub notes: usize,
    pub rels: usize,
    pub relas: usize,
    pub progbits: usize,
    pub nobits: bool,
    pub compressed: bool,
    pub aliases: usize,
    pub xnum_sh: bool,
    pub xnum_ph: bool,
    pub xindex: bool,
    pub no_shstrtab: bool,
    pub max_pad: usize,
    pub nsyms: usize,
    pub extra_phdrs: usize,
    pub dup_kinds: bool,
    /// e_shoff != 0, e_shnum == 0 and shdr[0].sh_size == 0: a present-but-empty table
    pub xnum_zero: bool,
    /// size of one big PROGBITS section (0 = none): reads larger than any plausible
    /// internal chunk size
    pub big: usize,
    /// this many extra tiny sections (0 = none): tables beyond any plausible small-table
    /// threshold (64, 128, 256 entries)
    pub many_sections: usize,
    /// one linking section (symtab, dynsym, verneed, verdef) is pointed at an *alias* of its
    /// string table: a second STRTAB header over the same bytes sharing the start (shorter),
    /// the end, or the whole range with the original
    pub relink: bool,
    /// entry-count multiplier (1 = none): long hash chains (>= 64 hops), hundreds of symbols,
    /// notes, relocations, version definitions / needs and aux entries: loops that only run
    /// long on big tables
    pub scale: usize,
}

impl GenParams {
    pub fn draw(rng: &mut Rng, bias: Bias, thorough: bool) -> GenParams {
        let small = matches!(bias, Bias::Prefix | Bias::Faults);
        let layout = match bias {
            Bias::Prefix => {
                if rng.chance(4, 5) {
                    Layout::HeadersFirst
                } else {
                    *rng.pick(&[Layout::HeadersLast, Layout::Interleaved])
                }
            }
            _ => *rng.pick(&[
                Layout::HeadersFirst,
                Layout::HeadersLast,
                Layout::Interleaved,
            ]),
        };
        let with_shdrs = rng.chance(9, 10);
        let dynsym = rng.chance(3, 5);
        let mut max_pad = match bias {
            Bias::Lies => *rng.pick(&[0usize, 16, 64, 1024, 4096]),
            Bias::Prefix | Bias::Faults => *rng.pick(&[0usize, 0, 4, 16]),
            _ => *rng.pick(&[0usize, 8, 64, 256]),
        };
        if thorough && rng.chance(1, 20) {
            max_pad *= 4;
        }
        let mut p = GenParams {
            c64: rng.chance(1, 2),
            be: rng.chance(1, 2),
            layout,
            with_shdrs,
            with_phdrs: rng.chance(4, 5),
            symtab: rng.chance(3, 5),
            dynsym,
            dynamic: rng.chance(3, 5),
            sysv_hash: dynsym && rng.chance(1, 2),
            gnu_hash: dynsym && rng.chance(1, 2),
            versions: dynsym && rng.chance(3, 5),
            notes: rng.urange(0, 2),
            rels: rng.urange(0, 1),
            relas: rng.urange(0, 1),
            progbits: rng.urange(0, if small { 1 } else { 3 }),
            nobits: rng.chance(1, 3),
            compressed: rng.chance(1, 8),
            aliases: if matches!(bias, Bias::Equiv | Bias::Faults) || rng.chance(1, 3) {
                rng.urange(0, 4)
            } else {
                0
            },
            xnum_sh: rng.chance(1, 10),
            xnum_ph: rng.chance(1, 10),
            xindex: rng.chance(1, 10),
            no_shstrtab: rng.chance(1, 16),
            max_pad,
            nsyms: if small {
                rng.urange(0, 6)
            } else if thorough && rng.chance(1, 10) {
                rng.urange(20, 200)
            } else {
                rng.urange(0, 14)
            },
            extra_phdrs: rng.urange(0, 3),
            dup_kinds: rng.chance(1, 12),
            xnum_zero: rng.chance(1, 14),
            relink: rng.chance(1, 8),
            scale: 1,
            many_sections: if small || !rng.chance(1, 24) {
                0
            } else {
                *rng.pick(&[60usize, 64, 70, 100, 128, 130, 200, 256, 260, 300])
            },
            big: if small {
                // C17 / C18 images are small so that enumeration stays cheap, but a few carry
                // one range above the plausible chunk sizes (64 KiB, 128 KiB, 1 MiB)
                if rng.chance(1, 40) {
                    *rng.pick(&[5_000usize, 66_000, 70_000, 132_000, 1_100_000])
                } else {
                    0
                }
            } else if rng.chance(1, 300) {
                *rng.pick(&[132_000usize, 1_100_000])
            } else if thorough && rng.chance(1, 16) {
                rng.urange(4096, 70_000)
            } else if rng.chance(1, 48) {
                rng.urange(4000, 17_000)
            } else {
                0
            },
        };
        // scale-up: 1 image in 16 (never the small, exhaustively enumerated ones) has its entry
        // counts multiplied and 60..400 symbols, so that chains, lists and tables run past any
        // plausible small-table threshold (16, 64, 128, 256 entries)
        if !small && rng.chance(1, 16) {
            p.scale = *rng.pick(&[4usize, 16, 48]);
            p.nsyms = rng.urange(60, 400);
        }
        p
    }

    pub fn to_json(&self) -> J {
        J::obj()
            .with("class", J::s(if self.c64 { "ELF64" } else { "ELF32" }))
            .with("order", J::s(if self.be { "MSB" } else { "LSB" }))
            .with("layout", J::s(self.layout.name()))
            .with("with_shdrs", J::Bool(self.with_shdrs))
            .with("with_phdrs", J::Bool(self.with_phdrs))
            .with(
                "kinds",
                J::Arr(
                    [
                        ("symtab", self.symtab),
                        ("dynsym", self.dynsym),
                        ("dynamic", self.dynamic),
                        ("hash", self.sysv_hash),
                        ("gnu_hash", self.gnu_hash),
                        ("versions", self.versions),
                        ("nobits", self.nobits),
                        ("compressed", self.compressed),
                        ("dup_kinds", self.dup_kinds),
                    ]
                    .iter()
                    .filter(|x| x.1)
                    .map(|x| J::s(x.0))
                    .collect(),
                ),
            )
            .with("notes", J::u(self.notes as u64))
            .with("rels", J::u(self.rels as u64))
            .with("relas", J::u(self.relas as u64))
            .with("progbits", J::u(self.progbits as u64))
            .with("aliases", J::u(self.aliases as u64))
            .with("xnum_sh", J::Bool(self.xnum_sh))
            .with("xnum_ph", J::Bool(self.xnum_ph))
            .with("xindex", J::Bool(self.xindex))
            .with("xnum_zero", J::Bool(self.xnum_zero))
            .with("big", J::u(self.big as u64))
            .with("many_sections", J::u(self.many_sections as u64))
            .with("relink", J::Bool(self.relink))
            .with("scale", J::u(self.scale as u64))
            .with("no_shstrtab", J::Bool(self.no_shstrtab))
            .with("max_pad", J::u(self.max_pad as u64))
            .with("nsyms", J::u(self.nsyms as u64))
    }

    pub fn class_sig(&self) -> u64 {
        let bits: [bool; 16] = [
            self.c64,
            self.be,
            self.with_shdrs,
            self.with_phdrs,
            self.symtab,
            self.dynsym,
            self.dynamic,
            self.sysv_hash,
            self.gnu_hash,
            self.versions,
            self.nobits,
            self.compressed,
            self.xnum_sh,
            self.xnum_ph,
            self.xindex,
            self.aliases > 0,
        ];
        let mut v: u64 = 0;
        for (i, b) in bits.iter().enumerate() {
            if *b {
                v |= 1 << i;
            }
        }
        v | ((self.layout as u64) << 16) | ((self.notes.min(3) as u64) << 18) | ((self.xnum_zero as u64) << 20)
            | (((self.many_sections > 0) as u64) << 21)
            | (((self.big > 0) as u64) << 22)
    }
}

/// Build an intact image from parameters.
pub fn build(rng: &mut Rng, p: &GenParams) -> Vec<u8> {
    let w = W {
        c64: p.c64,
        be: p.be,
        scale: p.scale.max(1),
    };
    let mut secs: Vec<Sec> = Vec::new();
    let mut note_secs: Vec<String> = Vec::new();

    if p.symtab {
        let syms = gen_syms(rng, p.nsyms, "_s");
        let mut strs = StrTab::new();
        let data = emit_syms(&w, &syms, &mut strs);
        secs.push(Sec {
            name: ".symtab".into(),
            typ: hdr::SHT_SYMTAB,
            data,
            link: Some(".strtab".into()),
            info: 1,
            align: 8,
            entsize: hdr::symsize(p.c64) as u64,
            ..Default::default()
        });
        secs.push(Sec {
            name: ".strtab".into(),
            typ: hdr::SHT_STRTAB,
            data: strs.data,
            align: 1,
            ..Default::default()
        });
    }
    if p.dynsym {
        let mut syms = gen_syms(rng, p.nsyms, "_d");
        let mut strs = StrTab::new();
        if p.gnu_hash {
            let data = gen_gnu_hash(&w, rng, &mut syms);
            secs.push(Sec {
                name: ".gnu.hash".into(),
                typ: hdr::SHT_GNU_HASH,
                flags: SHF_ALLOC,
                data,
                link: Some(".dynsym".into()),
                align: 8,
                ..Default::default()
            });
        }
        if p.sysv_hash {
            let data = gen_sysv_hash(&w, rng, &syms);
            secs.push(Sec {
                name: ".hash".into(),
                typ: hdr::SHT_HASH,
                flags: SHF_ALLOC,
                data,
                link: Some(".dynsym".into()),
                align: 4,
                entsize: 4,
                ..Default::default()
            });
        }
        let data = emit_syms(&w, &syms, &mut strs);
        if p.versions {
            let v = gen_versions(&w, rng, syms.len(), &mut strs);
            secs.push(Sec {
                name: ".gnu.version".into(),
                typ: hdr::SHT_GNU_VERSYM,
                flags: SHF_ALLOC,
                data: v.versym,
                link: Some(".dynsym".into()),
                align: 2,
                entsize: 2,
                ..Default::default()
            });
            if v.need_cnt > 0 || rng.chance(1, 4) {
                secs.push(Sec {
                    name: ".gnu.version_r".into(),
                    typ: hdr::SHT_GNU_VERNEED,
                    flags: SHF_ALLOC,
                    data: v.verneed,
                    link: Some(".dynstr".into()),
                    info: v.need_cnt,
                    align: 4,
                    ..Default::default()
                });
            }
            if v.def_cnt > 0 || rng.chance(1, 4) {
                secs.push(Sec {
                    name: ".gnu.version_d".into(),
                    typ: hdr::SHT_GNU_VERDEF,
                    flags: SHF_ALLOC,
                    data: v.verdef,
                    link: Some(".dynstr".into()),
                    info: v.def_cnt,
                    align: 4,
                    ..Default::default()
                });
            }
        }
        secs.push(Sec {
            name: ".dynsym".into(),
            typ: hdr::SHT_DYNSYM,
            flags: SHF_ALLOC,
            data,
            link: Some(".dynstr".into()),
            info: 1,
            align: 8,
            entsize: hdr::symsize(p.c64) as u64,
            ..Default::default()
        });
        secs.push(Sec {
            name: ".dynstr".into(),
            typ: hdr::SHT_STRTAB,
            flags: SHF_ALLOC,
            data: strs.data,
            align: 1,
            ..Default::default()
        });
    }
    if p.dynamic {
        secs.push(Sec {
            name: ".dynamic".into(),
            typ: hdr::SHT_DYNAMIC,
            flags: SHF_ALLOC | 1,
            data: gen_dynamic(&w, rng),
            link: if p.dynsym {
                Some(".dynstr".into())
            } else {
                None
            },
            align: 8,
            entsize: hdr::dynsize(p.c64) as u64,
            ..Default::default()
        });
    }
    for i in 0..p.notes {
        let align = if rng.chance(1, 4) { 8 } else { 4 };
        let name = format!(".note.{}", i);
        note_secs.push(name.clone());
        secs.push(Sec {
            name,
            typ: hdr::SHT_NOTE,
            flags: SHF_ALLOC,
            data: gen_notes(&w, rng, align),
            align: align as u64,
            ..Default::default()
        });
    }
    for i in 0..p.rels {
        secs.push(Sec {
            name: format!(".rel.{}", i),
            typ: hdr::SHT_REL,
            data: gen_rel(&w, rng, false, p.nsyms + 1),
            link: if p.symtab {
                Some(".symtab".into())
            } else {
                None
            },
            align: 8,
            entsize: if p.c64 { 16 } else { 8 },
            ..Default::default()
        });
    }
    for i in 0..p.relas {
        secs.push(Sec {
            name: format!(".rela.{}", i),
            typ: hdr::SHT_RELA,
            data: gen_rel(&w, rng, true, p.nsyms + 1),
            link: if p.symtab {
                Some(".symtab".into())
            } else {
                None
            },
            align: 8,
            entsize: if p.c64 { 24 } else { 12 },
            ..Default::default()
        });
    }
    const REAL_NAMES: [&str; 20] = [
        ".text", ".data", ".rodata", ".comment", ".debug_info", ".debug_str", ".debug_line",
        ".eh_frame", ".eh_frame_hdr", ".init_array", ".fini_array", ".got", ".got.plt", ".plt",
        ".interp", ".tdata", ".data.rel.ro", ".gcc_except_table", ".ARM.attributes", ".stab",
    ];
    for i in 0..p.progbits {
        // sizes: mostly small and arbitrary, sometimes an exact power of two
        let n = if rng.chance(1, 5) {
            *rng.pick(&[1usize, 2, 4, 8, 16, 32, 64, 128, 256, 512, 1024])
        } else {
            rng.urange(0, 96)
        };
        let mut d = vec![0u8; n];
        rng.fill(&mut d);
        secs.push(Sec {
            name: if rng.chance(1, 20) {
                let want = *rng.pick(&[33usize, 65, 130, 257, 1025]);
                let mut nm = format!(".long_{}_", i);
                while nm.len() < want {
                    nm.push('y');
                }
                nm
            } else if rng.chance(1, 2) {
                (*rng.pick(&REAL_NAMES)).to_string()
            } else {
                format!(".text.{}", i)
            },
            typ: hdr::SHT_PROGBITS,
            flags: SHF_ALLOC | 4,
            data: d,
            align: 16,
            ..Default::default()
        });
    }
    for i in 0..p.many_sections {
        let mut d = vec![0u8; rng.urange(0, 8)];
        rng.fill(&mut d);
        secs.push(Sec {
            name: format!(".m{}", i),
            typ: hdr::SHT_PROGBITS,
            data: d,
            align: 1,
            ..Default::default()
        });
    }
    if p.big > 0 {
        let mut d = vec![0u8; p.big];
        rng.fill(&mut d);
        secs.push(Sec {
            name: ".text.big".into(),
            typ: hdr::SHT_PROGBITS,
            flags: SHF_ALLOC | 4,
            data: d,
            align: 16,
            ..Default::default()
        });
    }
    if p.nobits {
        secs.push(Sec {
            name: ".bss".into(),
            typ: hdr::SHT_NOBITS,
            flags: SHF_ALLOC | 1,
            nobits: rng.below(0x10000),
            align: 32,
            ..Default::default()
        });
    }
    if p.compressed {
        let mut d = Vec::new();
        if p.c64 {
            w.p32(&mut d, 1);
            w.p32(&mut d, 0);
            w.p64(&mut d, 1234);
            w.p64(&mut d, 8);
        } else {
            w.p32(&mut d, 1);
            w.p32(&mut d, 1234);
            w.p32(&mut d, 8);
        }
        let mut body = vec![0u8; rng.urange(0, 40)];
        rng.fill(&mut body);
        d.extend_from_slice(&body);
        secs.push(Sec {
            name: ".zdebug".into(),
            typ: *rng.pick(&[hdr::SHT_PROGBITS, hdr::SHT_STRTAB, hdr::SHT_NOTE]),
            flags: hdr::SHF_COMPRESSED,
            data: d,
            align: 8,
            ..Default::default()
        });
    }
    if p.dup_kinds && !secs.is_empty() {
        // a second section of an already present kind (the crate picks first / last-seen)
        let i = rng.usize_below(secs.len());
        let mut d = secs[i].clone();
        d.name = format!("{}.dup", d.name);
        if !d.data.is_empty() && rng.chance(1, 2) {
            let cut = rng.usize_below(d.data.len());
            d.data.truncate(cut);
        }
        secs.push(d);
    }
    // shuffle (Fisher-Yates)
    for i in (1..secs.len()).rev() {
        let j = rng.usize_below(i + 1);
        secs.swap(i, j);
    }
    // relink: two string-table headers over (parts of) the same bytes, linked from different
    // sections (e.g. VERNEED -> .dynstr, VERDEF -> an alias of .dynstr with the same start
    // and a different size)
    if p.relink {
        let linkers: Vec<usize> = secs
            .iter()
            .enumerate()
            .filter(|(_, s)| {
                s.link.is_some()
                    && matches!(
                        s.typ,
                        hdr::SHT_SYMTAB | hdr::SHT_DYNSYM | hdr::SHT_GNU_VERNEED | hdr::SHT_GNU_VERDEF
                    )
            })
            .map(|(i, _)| i)
            .collect();
        if !linkers.is_empty() {
            let li = *rng.pick(&linkers);
            let target = secs[li].link.clone().unwrap();
            if secs.iter().any(|s| s.name == target && !s.data.is_empty()) {
                secs.push(Sec {
                    name: ".alias.link".into(),
                    typ: hdr::SHT_STRTAB,
                    align: 1,
                    alias: Some((target, *rng.pick(&[0u8, 0, 1, 2]))),
                    ..Default::default()
                });
                secs[li].link = Some(".alias.link".into());
            }
        }
    }
    // alias sections (overlay mode): ranges sharing a start / an end / nesting / empty
    let owners: Vec<String> = secs
        .iter()
        .filter(|s| !s.data.is_empty())
        .map(|s| s.name.clone())
        .collect();
    if !owners.is_empty() {
        for i in 0..p.aliases {
            let target = rng.pick(&owners).clone();
            let ttyp = secs.iter().find(|s| s.name == target).map(|s| s.typ).unwrap_or(1);
            let typ = if rng.chance(1, 2) {
                ttyp
            } else {
                *rng.pick(&[
                    hdr::SHT_PROGBITS,
                    hdr::SHT_STRTAB,
                    hdr::SHT_NOTE,
                    hdr::SHT_REL,
                    hdr::SHT_RELA,
                ])
            };
            let entsize = match typ {
                hdr::SHT_REL => {
                    if p.c64 {
                        16
                    } else {
                        8
                    }
                }
                hdr::SHT_RELA => {
                    if p.c64 {
                        24
                    } else {
                        12
                    }
                }
                _ => 0,
            };
            secs.push(Sec {
                name: format!(".alias.{}", i),
                typ,
                align: *rng.pick(&[1u64, 4, 8]),
                entsize,
                alias: Some((target, rng.below(6) as u8)),
                ..Default::default()
            });
        }
    }

    // section table: NULL + secs + shstrtab
    let mut shstr = StrTab::new();
    let mut names: Vec<String> = vec![String::new()];
    names.extend(secs.iter().map(|s| s.name.clone()));
    let has_shstrtab = p.with_shdrs && !p.no_shstrtab;
    if has_shstrtab {
        names.push(".shstrtab".into());
    }
    let name_offs: Vec<u32> = names
        .iter()
        .map(|n| if n.is_empty() { 0 } else { shstr.add(n) })
        .collect();
    if has_shstrtab {
        secs.push(Sec {
            name: ".shstrtab".into(),
            typ: hdr::SHT_STRTAB,
            data: shstr.data.clone(),
            align: 1,
            ..Default::default()
        });
    }
    let nsec = if p.with_shdrs { secs.len() + 1 } else { 0 };

    // program headers (filled after layout)
    let note_ph: Vec<String> = note_secs
        .iter()
        .filter(|_| rng.chance(2, 3))
        .cloned()
        .collect();
    let want_dyn_ph = p.dynamic && rng.chance(3, 4);
    let nph = if p.with_phdrs {
        1 + note_ph.len() + want_dyn_ph as usize + p.extra_phdrs
    } else {
        0
    };

    let eh = hdr::ehsize(p.c64);
    let shent = hdr::shentsize(p.c64);
    let phent = hdr::phentsize(p.c64);

    // ---- layout ----
    let mut out: Vec<u8> = vec![0u8; eh];
    let mut e_phoff = 0u64;
    let mut e_shoff = 0u64;
    let pad = |out: &mut Vec<u8>, rng: &mut Rng, align: u64, max_pad: usize| {
        if max_pad > 0 {
            let n = rng.usize_below(max_pad + 1);
            let fill = *rng.pick(&[0u8, 0xff, 0xa5]);
            out.extend(std::iter::repeat(fill).take(n));
        }
        let a = align.max(1) as usize;
        while out.len() % a != 0 {
            out.push(0);
        }
    };
    let place_ph = |out: &mut Vec<u8>, e_phoff: &mut u64| {
        if nph > 0 {
            while out.len() % 8 != 0 {
                out.push(0);
            }
            *e_phoff = out.len() as u64;
            out.extend(std::iter::repeat(0u8).take(nph * phent));
        }
    };
    let place_sh = |out: &mut Vec<u8>, e_shoff: &mut u64| {
        if nsec > 0 {
            while out.len() % 8 != 0 {
                out.push(0);
            }
            *e_shoff = out.len() as u64;
            out.extend(std::iter::repeat(0u8).take(nsec * shent));
        }
    };
    match p.layout {
        Layout::HeadersFirst => {
            place_ph(&mut out, &mut e_phoff);
            place_sh(&mut out, &mut e_shoff);
        }
        Layout::HeadersLast => {}
        Layout::Interleaved => {
            place_ph(&mut out, &mut e_phoff);
        }
    }
    let mut shdrs: Vec<Shdr> = vec![Shdr::default(); secs.len()];
    let split = if p.layout == Layout::Interleaved && !secs.is_empty() {
        rng.usize_below(secs.len() + 1)
    } else {
        usize::MAX
    };
    for (i, s) in secs.iter().enumerate() {
        if i == split {
            place_sh(&mut out, &mut e_shoff);
        }
        if s.alias.is_some() {
            continue;
        }
        let mut h = Shdr {
            typ: s.typ,
            flags: s.flags,
            addr: if s.flags & SHF_ALLOC != 0 {
                0x40_0000 + out.len() as u64
            } else {
                0
            },
            info: s.info,
            addralign: s.align,
            entsize: s.entsize,
            ..Default::default()
        };
        if s.typ == hdr::SHT_NOBITS {
            h.offset = out.len() as u64;
            h.size = s.nobits;
        } else {
            pad(&mut out, rng, s.align.min(16), p.max_pad);
            h.offset = out.len() as u64;
            h.size = s.data.len() as u64;
            out.extend_from_slice(&s.data);
        }
        shdrs[i] = h;
    }
    if p.layout == Layout::Interleaved && split >= secs.len() {
        place_sh(&mut out, &mut e_shoff);
    }
    if p.layout == Layout::HeadersLast {
        pad(&mut out, rng, 8, p.max_pad);
        if rng.chance(1, 2) {
            place_ph(&mut out, &mut e_phoff);
            place_sh(&mut out, &mut e_shoff);
        } else {
            place_sh(&mut out, &mut e_shoff);
            place_ph(&mut out, &mut e_phoff);
        }
    }
    // trailing bytes after everything, sometimes
    if rng.chance(1, 4) {
        let n = rng.urange(1, 24);
        out.extend(std::iter::repeat(0x5au8).take(n));
    }
    // aliases
    for (i, s) in secs.iter().enumerate() {
        if let Some((t, mode)) = &s.alias {
            let ti = secs.iter().position(|x| &x.name == t).unwrap_or(0);
            let th = shdrs[ti];
            let mut h = Shdr {
                typ: s.typ,
                addralign: s.align,
                entsize: s.entsize,
                ..Default::default()
            };
            let sz = th.size;
            let cut = if sz > 0 { 1 + rng.below(sz) } else { 0 };
            match mode {
                0 => {
                    // same start, shorter or equal
                    h.offset = th.offset;
                    h.size = cut;
                }
                1 => {
                    // same end, later start
                    h.offset = th.offset + (sz - cut);
                    h.size = cut;
                }
                2 => {
                    // identical range
                    h.offset = th.offset;
                    h.size = sz;
                }
                3 => {
                    // empty at start
                    h.offset = th.offset;
                    h.size = 0;
                }
                4 => {
                    // empty at end (or at EOF)
                    h.offset = if rng.chance(1, 2) {
                        th.offset + sz
                    } else {
                        out.len() as u64
                    };
                    h.size = 0;
                }
                _ => {
                    // nested strictly inside
                    let a = rng.below(sz.max(1));
                    let b = a + rng.below(sz - a + 1);
                    h.offset = th.offset + a;
                    h.size = b - a;
                }
            }
            shdrs[i] = h;
        }
    }
    // names + links
    for (i, s) in secs.iter().enumerate() {
        shdrs[i].name = name_offs.get(i + 1).copied().unwrap_or(0);
        if let Some(l) = &s.link {
            shdrs[i].link = secs
                .iter()
                .position(|x| &x.name == l)
                .map(|x| (x + 1) as u32)
                .unwrap_or(0);
        }
    }
    let shstrndx = if has_shstrtab { secs.len() } else { 0 };

    // write section header table
    let mut shdr0 = Shdr::default();
    let mut e_shnum = nsec as u16;
    let mut e_phnum = nph as u16;
    let mut e_shstrndx = shstrndx as u16;
    if nsec > 0 {
        if p.xnum_sh {
            shdr0.size = nsec as u64;
            e_shnum = 0;
        }
        if p.xnum_zero {
            shdr0.size = 0;
            e_shnum = 0;
        }
        if p.xnum_ph && nph > 0 {
            shdr0.info = nph as u32;
            e_phnum = hdr::PN_XNUM;
        }
        if p.xindex && shstrndx != 0 {
            shdr0.link = shstrndx as u32;
            e_shstrndx = hdr::SHN_XINDEX;
        }
        hdr::write_shdr(&mut out, e_shoff as usize, p.c64, p.be, &shdr0);
        for (i, h) in shdrs.iter().enumerate() {
            hdr::write_shdr(&mut out, e_shoff as usize + (i + 1) * shent, p.c64, p.be, h);
        }
    }
    // program headers
    if nph > 0 {
        let mut phs: Vec<Phdr> = Vec::new();
        phs.push(Phdr {
            typ: hdr::PT_LOAD,
            flags: 5,
            offset: 0,
            vaddr: 0x40_0000,
            paddr: 0x40_0000,
            filesz: out.len() as u64,
            memsz: out.len() as u64 + 0x100,
            align: 0x1000,
        });
        for n in note_ph.iter() {
            let i = secs.iter().position(|s| &s.name == n).unwrap();
            phs.push(Phdr {
                typ: hdr::PT_NOTE,
                flags: 4,
                offset: shdrs[i].offset,
                vaddr: shdrs[i].addr,
                paddr: shdrs[i].addr,
                filesz: shdrs[i].size,
                memsz: shdrs[i].size,
                align: shdrs[i].addralign,
            });
        }
        if want_dyn_ph {
            let i = secs.iter().position(|s| s.name == ".dynamic").unwrap();
            phs.push(Phdr {
                typ: hdr::PT_DYNAMIC,
                flags: 6,
                offset: shdrs[i].offset,
                vaddr: shdrs[i].addr,
                paddr: shdrs[i].addr,
                filesz: shdrs[i].size,
                memsz: shdrs[i].size,
                align: 8,
            });
        }
        for _ in 0..p.extra_phdrs {
            let len = out.len() as u64;
            let off = rng.below(len + 1);
            let sz = rng.below(len - off + 1);
            phs.push(Phdr {
                typ: *rng.pick(&[hdr::PT_NULL, hdr::PT_LOAD, 0x6474_e551, hdr::PT_NOTE, 3]),
                flags: rng.below(8) as u32,
                offset: off,
                vaddr: off,
                paddr: off,
                filesz: sz,
                memsz: sz,
                align: *rng.pick(&[0u64, 1, 4, 8, 16]),
            });
        }
        // PT_LOAD first, the rest shuffled
        for i in (2..phs.len()).rev() {
            let j = 1 + rng.usize_below(i);
            phs.swap(i, j);
        }
        for (i, ph) in phs.iter().enumerate() {
            hdr::write_phdr(&mut out, e_phoff as usize + i * phent, p.c64, p.be, ph);
        }
    }
    let e = Ehdr {
        class64: p.c64,
        be: p.be,
        e_type: *rng.pick(&[1u16, 2, 3, 3, 2, 4, 0, 0xfe00, 0xffff]),
        e_machine: if rng.chance(1, 6) {
            rng.next_u64() as u16
        } else {
            *rng.pick(&[3u16, 62, 183, 40, 20, 21, 243, 4, 8, 2, 50, 0])
        },
        e_version: 1,
        e_entry: 0x40_1000,
        e_phoff,
        e_shoff,
        e_flags: if rng.chance(1, 3) { rng.next_u64() as u32 } else { 0 },
        e_ehsize: eh as u16,
        e_phentsize: if nph > 0 { phent as u16 } else { 0 },
        e_phnum,
        e_shentsize: if nsec > 0 { shent as u16 } else { 0 },
        e_shnum,
        e_shstrndx,
    };
    hdr::write_ehdr(&mut out, &e);
    out[7] = if rng.chance(1, 6) {
        rng.next_u64() as u8
    } else {
        *rng.pick(&[0u8, 3, 9, 6, 12, 97, 255])
    };
    if rng.chance(1, 8) {
        out[8] = rng.next_u64() as u8; // EI_ABIVERSION
    }
    out
}

/// Boundary values for lying fields, relative to the image length.
pub fn boundary_value(rng: &mut Rng, len: u64, width: usize) -> u64 {
    let table = [
        0u64,
        1,
        len.saturating_sub(1),
        len,
        len + 1,
        5 * len + 10000,
        1 << 31,
        (1 << 32) - 1,
        1 << 63,
        u64::MAX,
        4 * len + 8192,
        4 * len + 16384,
        4 * len + 16385,
        4 * len + 8193,
        len / 2,
        0xff00,
        0xffff,
    ];
    let v = *rng.pick(&table);
    if width >= 8 {
        v
    } else {
        let mask = (1u64 << (8 * width)) - 1;
        if v > mask && rng.chance(1, 2) {
            mask
        } else {
            v & mask
        }
    }
}

/// Apply one corruption operator in place; returns its record.
pub fn corrupt_once(rng: &mut Rng, b: &mut Vec<u8>, bias: Bias) -> J {
    let len = b.len() as u64;
    let m = Model::of(b);
    let e = match m.ehdr {
        Some(e) => e,
        None => {
            return flip_bytes(rng, b);
        }
    };
    let c64 = e.class64;
    let be = e.be;
    let lies = matches!(bias, Bias::Lies);
    let choice = rng.below(if lies { 14 } else { 16 });
    match choice {
        0..=3 => {
            // ehdr field
            let fields = hdr::ehdr_fields(c64);
            let f = if lies || rng.chance(1, 2) {
                *rng.pick(&[
                    "e_phoff",
                    "e_shoff",
                    "e_phnum",
                    "e_shnum",
                    "e_shstrndx",
                    "e_phentsize",
                    "e_shentsize",
                ])
            } else {
                rng.pick(fields).0
            };
            let (name, off, w) = *fields.iter().find(|x| x.0 == f).unwrap();
            let v = boundary_value(rng, len, w);
            hdr::wr(b, off, w, be, v);
            J::obj()
                .with("op", J::s("set_ehdr"))
                .with("field", J::s(name))
                .with("value", J::u(v))
        }
        4..=9 if !m.shdrs.is_empty() => {
            let idx = rng.usize_below(m.shdrs.len());
            let fields = hdr::shdr_fields(c64);
            let f = if lies || rng.chance(2, 3) {
                *rng.pick(&[
                    "sh_offset",
                    "sh_size",
                    "sh_size",
                    "sh_link",
                    "sh_entsize",
                    "sh_info",
                    "sh_type",
                    "sh_addralign",
                ])
            } else {
                rng.pick(fields).0
            };
            let (name, off, w) = *fields.iter().find(|x| x.0 == f).unwrap();
            let v = if name == "sh_type" {
                *rng.pick(&[
                    0u64,
                    1,
                    2,
                    3,
                    4,
                    5,
                    6,
                    7,
                    8,
                    9,
                    11,
                    0x6fff_fff6,
                    0x6fff_fffd,
                    0x6fff_fffe,
                    0x6fff_ffff,
                ])
            } else if name == "sh_link" && rng.chance(1, 2) {
                rng.below(m.shdrs.len() as u64 + 2)
            } else if name == "sh_entsize" && rng.chance(1, 2) {
                m.shdrs[idx].entsize.wrapping_add(rng.range(1, 8)) & 0xff
            } else {
                boundary_value(rng, len, w)
            };
            let at = e.e_shoff as usize + idx * hdr::shentsize(c64) + off;
            hdr::wr(b, at, w, be, v);
            J::obj()
                .with("op", J::s("set_shdr"))
                .with("index", J::u(idx as u64))
                .with("field", J::s(name))
                .with("value", J::u(v))
        }
        10..=11 if !m.phdrs.is_empty() => {
            let idx = rng.usize_below(m.phdrs.len());
            let fields = hdr::phdr_fields(c64);
            let f = if lies || rng.chance(2, 3) {
                *rng.pick(&["p_offset", "p_filesz", "p_type", "p_align"])
            } else {
                rng.pick(fields).0
            };
            let (name, off, w) = *fields.iter().find(|x| x.0 == f).unwrap();
            let v = if name == "p_type" {
                *rng.pick(&[0u64, 1, 2, 4, 6])
            } else {
                boundary_value(rng, len, w)
            };
            let at = e.e_phoff as usize + idx * hdr::phentsize(c64) + off;
            hdr::wr(b, at, w, be, v);
            J::obj()
                .with("op", J::s("set_phdr"))
                .with("index", J::u(idx as u64))
                .with("field", J::s(name))
                .with("value", J::u(v))
        }
        12 if m.shdrs.len() >= 2 => {
            let i = rng.usize_below(m.shdrs.len());
            let j = rng.usize_below(m.shdrs.len());
            let sz = hdr::shentsize(c64);
            let a = e.e_shoff as usize + i * sz;
            let c = e.e_shoff as usize + j * sz;
            if a + sz <= b.len() && c + sz <= b.len() && i != j {
                for k in 0..sz {
                    b.swap(a + k, c + k);
                }
            }
            J::obj()
                .with("op", J::s("swap_shdrs"))
                .with("i", J::u(i as u64))
                .with("j", J::u(j as u64))
        }
        13 => {
            // shdr[0] fields drive extended numbering
            if e.e_shoff != 0 {
                let fields = hdr::shdr_fields(c64);
                let f = *rng.pick(&["sh_size", "sh_info", "sh_link"]);
                let (name, off, w) = *fields.iter().find(|x| x.0 == f).unwrap();
                let v = boundary_value(rng, len, w);
                hdr::wr(b, (e.e_shoff as usize).saturating_add(off), w, be, v);
                J::obj()
                    .with("op", J::s("set_shdr0"))
                    .with("field", J::s(name))
                    .with("value", J::u(v))
            } else {
                flip_bytes(rng, b)
            }
        }
        14 => {
            let n = rng.usize_below(b.len() + 1);
            b.truncate(n);
            J::obj()
                .with("op", J::s("truncate"))
                .with("len", J::u(n as u64))
        }
        _ => flip_bytes(rng, b),
    }
}

fn flip_bytes(rng: &mut Rng, b: &mut Vec<u8>) -> J {
    let k = rng.urange(1, 4);
    let mut offs = Vec::new();
    if b.is_empty() {
        return J::obj().with("op", J::s("flip_bytes"));
    }
    for _ in 0..k {
        // bias to the header area
        let o = if rng.chance(1, 2) {
            rng.usize_below(b.len().min(128))
        } else {
            rng.usize_below(b.len())
        };
        b[o] = rng.next_u64() as u8;
        offs.push(J::u(o as u64));
    }
    J::obj()
        .with("op", J::s("flip_bytes"))
        .with("offsets", J::Arr(offs))
}

/// Draw one image for a run.
pub fn draw_image(rng: &mut Rng, samples: &Samples, bias: Bias, thorough: bool) -> Image {
    let src = rng.below(100);
    let use_sample = !samples.raw.is_empty()
        && match bias {
            Bias::Prefix => false,
            Bias::Faults => src < 10,
            _ => src < 24,
        };
    let (mut bytes, mut recipe, class_sig, generated) = if use_sample {
        let relaid = src % 2 == 0 && !samples.relaid.is_empty();
        let pool = if relaid {
            &samples.relaid
        } else {
            &samples.raw
        };
        // prefer small samples in quick tier
        let mut idx = rng.usize_below(pool.len());
        if !thorough && pool[idx].1.len() > 20000 && rng.chance(3, 4) {
            idx = rng.usize_below(pool.len());
        }
        let (n, b) = &pool[idx];
        (
            b.clone(),
            J::obj()
                .with(
                    "source",
                    J::s(if relaid {
                        "sample-relaid-headers-first"
                    } else {
                        "sample"
                    }),
                )
                .with("name", J::s(n)),
            0x8000_0000u64 | ((idx as u64) << 1) | relaid as u64,
            false,
        )
    } else {
        let p = GenParams::draw(rng, bias, thorough);
        let b = build(rng, &p);
        (
            b,
            J::obj()
                .with("source", J::s("generated"))
                .with("params", p.to_json()),
            p.class_sig(),
            true,
        )
    };
    let ncorr = match bias {
        Bias::Lies => rng.urange(0, 3),
        Bias::Faults => {
            if rng.chance(1, 4) {
                1
            } else {
                0
            }
        }
        Bias::Prefix => rng.urange(0, 2) * rng.urange(0, 1),
        _ => {
            if rng.chance(2, 5) {
                0
            } else {
                rng.urange(1, 3)
            }
        }
    };
    let mut recs = Vec::new();
    for _ in 0..ncorr {
        recs.push(corrupt_once(rng, &mut bytes, bias));
    }
    let sig = class_sig ^ ((ncorr as u64) << 40);
    recipe.set("len", J::u(bytes.len() as u64));
    recipe.set("corruptions", J::Arr(recs));
    Image {
        bytes,
        recipe,
        class_sig: sig,
        self_contained: generated && ncorr == 0,
    }
}
