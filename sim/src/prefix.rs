//! C18 — a truncated file yields errors or unchanged answers; appended bytes change nothing.
//!
//! SimWriter writes the image to SimDisk and crashes at byte p: exactly `image[..p]` is
//! durable. Every crash point of small images (boundary-biased for large ones) is parsed by
//! both parsers with the full query set and compared, query by query, with the complete
//! file. Second scenario: an appending writer adds seeded bytes after a complete image.

use crate::equiv::{prop_id, succeeded, Violation};
use crate::exec::Tag;
use crate::gen::{self, Bias, Samples};
use crate::hdr::Model;
use crate::json::J;
use crate::obs::Caps;
use crate::ops::OpRec;
use crate::reader::ReaderCfg;
use crate::report::Report;
use crate::rng::{fnv1a, mix, Rng, FNV_INIT};
use crate::scen::*;
use crate::with_spec;
use crate::workload;

fn slice_all<E: elf::endian::EndianParse>(bytes: &[u8], ops: &[OpRec], caps: Caps) -> Vec<OpOut> {
    run_slice::<E>(bytes, ops, caps)
}

fn stream_all<E: elf::endian::EndianParse>(sc: &Scenario, caps: Caps) -> Vec<OpOut> {
    // align to the slice layout: index 0 = open, index i = op i (slice-only ops -> Err)
    let r = run_stream::<E>(sc, caps);
    IO_EVENTS.with(|c| c.set(c.get() + r.total_events));
    let mut out = vec![
        OpOut {
            tag: Tag::Err,
            obs: Vec::new()
        };
        sc.ops.len() + 1
    ];
    for st in r.steps.into_iter() {
        if !st.epilogue {
            out[st.op_index] = st.out;
        }
    }
    out
}

thread_local! {
    /// I/O events delivered to the stream parser since the last `take_io_events()`
    static IO_EVENTS: std::cell::Cell<u64> = std::cell::Cell::new(0);
}

fn take_io_events() -> u64 {
    IO_EVENTS.with(|c| c.replace(0))
}

#[derive(Clone, Copy, Debug, PartialEq, Eq)]
pub enum Parser {
    Slice,
    Stream,
}

impl Parser {
    pub fn name(self) -> &'static str {
        match self {
            Parser::Slice => "slice",
            Parser::Stream => "stream",
        }
    }
}

/// ObsAll(parser, visible bytes of sc) with caps computed from the *complete* image, so the
/// same indices are probed on the prefix and on the whole file.
pub fn obs_all(sc: &Scenario, parser: Parser, caps: Caps) -> Vec<OpOut> {
    match parser {
        Parser::Slice => {
            let bytes = sc.visible();
            with_spec!(sc.spec, slice_all(&bytes, &sc.ops, caps))
        }
        Parser::Stream => with_spec!(sc.spec, stream_all(sc, caps)),
    }
}

fn op_name(sc: &Scenario, q: usize) -> &'static str {
    if q == 0 {
        "open"
    } else {
        sc.ops[q - 1].op.name()
    }
}

/// Prefix clause: every query on the prefix is an error or equals the complete file's.
pub fn check_prefix(sc: &Scenario, parser: Parser, full: &[OpOut], got: &[OpOut]) -> Option<Violation> {
    for q in 0..got.len() {
        if parser == Parser::Stream && q > 0 && sc.ops[q - 1].op.slice_only() {
            continue;
        }
        let t = &got[q];
        if t.tag == Tag::Err {
            continue;
        }
        if *t != full[q] {
            return Some(Violation {
                prop: "C18".into(),
                clause: format!("prefix-{}", parser.name()),
                op: op_name(sc, q).into(),
                at_op_id: if q == 0 { 0 } else { sc.ops[q - 1].id },
                detail: format!(
                    "on the {}-byte prefix of the {}-byte file the {} parser answered {} (not an error) but differently from the complete file ({})",
                    sc.durable_len,
                    sc.image.len(),
                    parser.name(),
                    t.tag.name(),
                    full[q].tag.name()
                ),
            });
        }
    }
    None
}

/// Append clause: every non-error answer is unchanged; on self-contained images every
/// answer (errors included) is unchanged.
pub fn check_append(
    sc: &Scenario,
    parser: Parser,
    full: &[OpOut],
    got: &[OpOut],
    strict: bool,
) -> Option<Violation> {
    for q in 0..got.len() {
        if parser == Parser::Stream && q > 0 && sc.ops[q - 1].op.slice_only() {
            continue;
        }
        let f = &full[q];
        let a = &got[q];
        let must_equal = strict || succeeded(f.tag);
        if must_equal && a != f {
            return Some(Violation {
                prop: "C18".into(),
                clause: format!("append-{}", parser.name()),
                op: op_name(sc, q).into(),
                at_op_id: if q == 0 { 0 } else { sc.ops[q - 1].id },
                detail: format!(
                    "appending {} bytes after the {}-byte file changed the {} parser's answer from {} to {}",
                    sc.suffix.len(),
                    sc.image.len(),
                    parser.name(),
                    f.tag.name(),
                    a.tag.name()
                ),
            });
        }
    }
    None
}

pub fn build_image_scenario(seed: u64, run: u64, tier: &str, samples: &Samples) -> (Scenario, Caps, bool) {
    let thorough = tier == "thorough";
    let run_seed = mix(mix(seed, prop_id("C18")), run);
    let mut g = Rng::sub(run_seed, 1);
    let mut o = Rng::sub(run_seed, 2);
    let img = gen::draw_image(&mut g, samples, Bias::Prefix, thorough);
    let model = Model::of(&img.bytes);
    let ops = workload::full_query_set(&img.bytes, &model, true);
    let caps = caps_for(&img.bytes, &model);
    let be = img.bytes.get(5).copied() == Some(2);
    let spec = match o.below(8) {
        0..=3 => Spec::Any,
        4..=6 => {
            if be {
                Spec::Be
            } else {
                Spec::Le
            }
        }
        _ => {
            if be {
                Spec::Le
            } else {
                Spec::Be
            }
        }
    };
    let mut recipe = img.recipe.clone();
    recipe.set("class_sig", J::u(img.class_sig));
    recipe.set("self_contained", J::Bool(img.self_contained));
    let sc = Scenario {
        prop: "C18".into(),
        seed,
        run,
        tier: tier.to_string(),
        spec,
        durable_len: img.bytes.len(),
        image: img.bytes,
        suffix: Vec::new(),
        ops,
        reader: ReaderCfg::well_behaved(),
        epilogue: false,
        recipe,
        mode: "complete".into(),
    };
    (sc, caps, img.self_contained)
}

/// Crash points for an image: every byte for small images, boundary-biased otherwise.
pub fn crash_points(bytes: &[u8], model: &Model, rng: &mut Rng, exhaustive_max: usize, extra: usize) -> (Vec<usize>, bool) {
    let len = bytes.len();
    if len <= exhaustive_max {
        return ((0..len).collect(), true);
    }
    let mut v: Vec<usize> = Vec::new();
    for b in model.boundaries() {
        for d in -2i64..=2 {
            let p = b as i64 + d;
            if p >= 0 && (p as usize) < len {
                v.push(p as usize);
            }
        }
    }
    for _ in 0..extra {
        v.push(rng.usize_below(len));
    }
    v.sort_unstable();
    v.dedup();
    (v, false)
}

pub struct C18Outcome {
    pub violation: Option<(Scenario, Violation)>,
}

fn interval_index(bounds: &[u64], p: usize) -> usize {
    match bounds.binary_search(&(p as u64)) {
        Ok(i) => 2 * i,
        Err(i) => 2 * i + 1,
    }
}

/// All crash points of one image on both parsers + a few appends.
pub fn run_image(
    seed: u64,
    run: u64,
    tier: &str,
    samples: &Samples,
    fixed_image: Option<(String, Vec<u8>, usize, usize)>,
    rep: &mut Report,
) -> C18Outcome {
    let thorough = tier == "thorough";
    let (mut base, mut caps, mut strict) = build_image_scenario(seed, run, tier, samples);
    let mut chunk: Option<(usize, usize)> = None;
    if let Some((name, bytes, lo, hi)) = fixed_image {
        if hi > lo {
            chunk = Some((lo, hi));
        }
        let model = Model::of(&bytes);
        base.ops = workload::full_query_set(&bytes, &model, true);
        caps = caps_for(&bytes, &model);
        base.recipe = J::obj()
            .with("source", J::s("sample-sweep"))
            .with("name", J::s(&name))
            .with("len", J::u(bytes.len() as u64))
            .with("class_sig", J::u(fnv1a(FNV_INIT, name.as_bytes())));
        base.durable_len = bytes.len();
        base.image = bytes;
        base.spec = Spec::Any;
        strict = false;
    }
    let run_seed = mix(mix(seed, prop_id("C18")), run);
    let mut cr = Rng::sub(run_seed, 6);
    let model = Model::of(&base.image);
    let bounds = model.boundaries();
    let full_slice = obs_all(&base, Parser::Slice, caps);
    let full_stream = obs_all(&base, Parser::Stream, caps);
    rep.evaluations += 2;
    rep.add("images", 1);
    let opened = succeeded(full_slice[0].tag);
    if opened {
        rep.add("images_opened_complete", 1);
    }
    let class_sig = base.recipe.gu("class_sig");
    let (points, exhaustive) = match chunk {
        Some((lo, hi)) => ((lo..hi.min(base.image.len())).collect(), false),
        None => crash_points(
            &base.image,
            &model,
            &mut cr,
            if thorough { 8192 } else { 4096 },
            if thorough { 512 } else { 256 },
        ),
    };
    if chunk.is_some() {
        rep.add("sample_prefix_chunks_exhausted", 1);
    }
    if exhaustive {
        rep.add("images_with_every_prefix", 1);
    }
    let mut sampled = false;
    for &p in points.iter() {
        crate::sup::heartbeat(run);
        let mut sc = base.clone();
        sc.durable_len = p;
        sc.mode = "prefix".into();
        for parser in [Parser::Slice, Parser::Stream] {
            let full = if parser == Parser::Slice {
                &full_slice
            } else {
                &full_stream
            };
            let got = obs_all(&sc, parser, caps);
            rep.evaluations += 1;
            rep.add("crash_points", 1);
            let nonerr = got.iter().filter(|o| o.tag != Tag::Err).count() as u64;
            rep.add("prefix_queries", got.len() as u64);
            rep.add("prefix_nonerror_answers", nonerr);
            if got[0].tag != Tag::Err {
                rep.add("prefix_opened", 1);
                let mut sig = FNV_INIT;
                sig = fnv1a(sig, &class_sig.to_le_bytes());
                sig = fnv1a(sig, &run.to_le_bytes());
                sig = fnv1a(sig, &(interval_index(&bounds, p) as u64).to_le_bytes());
                sig = fnv1a(sig, &[parser as u8]);
                rep.sigs.push(sig);
                if !sampled && nonerr > 3 && p * 2 > base.image.len() {
                    sampled = true;
                    rep.sample(
                        J::obj()
                            .with("image", base.recipe.clone())
                            .with("endian_spec", J::s(base.spec.name()))
                            .with("crash_point", J::u(p as u64))
                            .with("parser", J::s(parser.name()))
                            .with("queries", J::u(got.len() as u64))
                            .with("nonerror_answers_on_prefix", J::u(nonerr))
                            .with(
                                "first_outcomes",
                                J::Arr(
                                    got.iter()
                                        .take(16)
                                        .enumerate()
                                        .map(|(q, o)| {
                                            J::Str(format!("{}:{}", op_name(&sc, q), o.tag.name()))
                                        })
                                        .collect(),
                                ),
                            ),
                    );
                }
            }
            if let Some(v) = check_prefix(&sc, parser, full, &got) {
                sc.mode = format!("prefix/{}", parser.name());
                if let Some(out) = confirm_single_query(&sc, &v, rep) {
                    return out;
                }
            }
        }
    }
    // append scenario
    let n_app = if thorough { 4 } else { 2 };
    for a in 0..n_app {
        let mut sc = base.clone();
        let n = if cr.chance(1, 12) {
            // now and then an appended tail that pushes the file across a size threshold
            *cr.pick(&[4097usize, 65_537, 70_000, 140_000])
        } else {
            cr.urange(1, if thorough { 4096 } else { 1024 })
        };
        let mut suf = vec![0u8; n];
        match (a + cr.usize_below(4)) % 4 {
            0 => {}
            1 => suf.iter_mut().for_each(|b| *b = 0xff),
            2 => cr.fill(&mut suf),
            _ => {
                // a second ELF header (and more of the image) after the end
                for (i, b) in suf.iter_mut().enumerate() {
                    *b = base.image.get(i).copied().unwrap_or(0);
                }
            }
        }
        sc.suffix = suf;
        sc.mode = "append".into();
        for parser in [Parser::Slice, Parser::Stream] {
            let full = if parser == Parser::Slice {
                &full_slice
            } else {
                &full_stream
            };
            let got = obs_all(&sc, parser, caps);
            rep.evaluations += 1;
            rep.add("appends", 1);
            if strict {
                rep.add("appends_strict_identity", 1);
            }
            if let Some(v) = check_append(&sc, parser, full, &got, strict) {
                sc.mode = format!("append/{}", parser.name());
                if let Some(out) = confirm_single_query(&sc, &v, rep) {
                    return out;
                }
            }
        }
    }
    rep.add("sim_time_io_events", take_io_events());
    C18Outcome { violation: None }
}

/// C18 is about each query as a function of the bytes; the property has no history in it.
/// A stream-side difference found inside a shared-stream history is therefore re-judged
/// with that single query on fresh streams, then with that query asked twice. If it vanishes
/// both times, the tree's stream answers
/// depend on the call history (C07's subject) and the case is recorded as inconclusive.
fn confirm_single_query(sc: &Scenario, v: &Violation, rep: &mut Report) -> Option<C18Outcome> {
    let mut one = sc.clone();
    one.ops.retain(|o| o.id == v.at_op_id);
    match judge(&one) {
        Some(v1) => Some(C18Outcome {
            violation: Some((one, v1)),
        }),
        None => {
            // ... unless the same query asked *twice* on a fresh stream over the prefix shows
            // it: a repeated query is still a query on the prefix, and its answer must be an
            // error or the complete file's (an error first and a wrong answer on the retry is
            // the classic shape: a buffer cached before the read that fills it succeeded)
            let mut two = one.clone();
            if let Some(first) = two.ops.first().cloned() {
                let mut again = first.clone();
                two.ops[0].id = 1;
                again.id = 2;
                two.ops.push(again);
                if let Some(v2) = judge(&two) {
                    rep.add("confirmed_by_repeated_query", 1);
                    return Some(C18Outcome {
                        violation: Some((two, v2)),
                    });
                }
            }
            rep.add("inconclusive_history_sensitive", 1);
            if rep.notes.len() < 8 {
                rep.notes.push(
                    J::obj()
                        .with("kind", J::s("inconclusive_history_sensitive"))
                        .with("run", J::u(sc.run))
                        .with("seed", J::u(sc.seed))
                        .with("op", J::s(&v.op)),
                );
            }
            None
        }
    }
}

/// Re-judge a replayed / minimised C18 scenario from scratch.
pub fn judge(sc: &Scenario) -> Option<Violation> {
    let parser = if sc.mode.ends_with("stream") {
        Parser::Stream
    } else {
        Parser::Slice
    };
    let model = Model::of(&sc.image);
    let caps = caps_for(&sc.image, &model);
    let mut complete = sc.clone();
    complete.durable_len = sc.image.len();
    complete.suffix.clear();
    let full = obs_all(&complete, parser, caps);
    let got = obs_all(sc, parser, caps);
    if sc.mode.starts_with("append") {
        let strict = sc
            .recipe
            .get("self_contained")
            .and_then(|b| b.as_bool())
            .unwrap_or(false);
        check_append(sc, parser, &full, &got, strict)
    } else {
        check_prefix(sc, parser, &full, &got)
    }
}
