//! Executors: apply an `Op` to `ElfBytes` (slice) or `ElfStream<_, SimReader>` (stream),
//! split every call into the *parser call* and the *drain* of whatever lazy view it
//! returned, each under `catch_unwind`, and feed the observation into a sink.

use crate::alloc;
use crate::hdr::{Phdr, Shdr};
use crate::obs::*;
use crate::ops::Op;
use elf::endian::EndianParse;
use elf::section::SectionHeader;
use elf::segment::ProgramHeader;
use elf::ElfBytes;
use elf::ParseError;
use std::panic::{catch_unwind, AssertUnwindSafe};

#[derive(Clone, Copy, Debug, PartialEq, Eq, Hash)]
pub enum Tag {
    Ok = 0,
    Err = 1,
    PanicCall = 2,
    PanicDrain = 3,
    StepCap = 4,
}

impl Tag {
    pub fn name(self) -> &'static str {
        match self {
            Tag::Ok => "Ok",
            Tag::Err => "Err",
            Tag::PanicCall => "Panicked(call)",
            Tag::PanicDrain => "Panicked(drain)",
            Tag::StepCap => "StepCap",
        }
    }
    pub fn is_ok(self) -> bool {
        self == Tag::Ok
    }
    pub fn is_panic(self) -> bool {
        matches!(self, Tag::PanicCall | Tag::PanicDrain)
    }
}

/// Scopes of the allocator seam during the two phases of a call + the drain caps.
#[derive(Clone, Copy, Debug)]
pub struct Ctx {
    pub call_scope: u8,
    pub drain_scope: u8,
    pub caps: Caps,
}

impl Ctx {
    pub fn plain(caps: Caps) -> Ctx {
        Ctx {
            call_scope: alloc::OFF,
            drain_scope: alloc::OFF,
            caps,
        }
    }
}

enum Caught {
    Panic,
    StepCap,
}

fn guarded<T>(scope: u8, f: impl FnOnce() -> T) -> Result<T, Caught> {
    let prev = alloc::set_scope(scope);
    let r = catch_unwind(AssertUnwindSafe(f));
    alloc::set_scope(prev);
    match r {
        Ok(v) => Ok(v),
        Err(payload) => {
            #[cfg(feature = "stream")]
            {
                if payload.is::<crate::reader::StepCapHit>() {
                    drop(payload);
                    return Err(Caught::StepCap);
                }
            }
            drop(payload);
            Err(Caught::Panic)
        }
    }
}

/// Run `call`, then `drain` its Ok value into the sink.
pub fn call_drain<T, K: Sink>(
    ctx: &Ctx,
    k: &mut K,
    call: impl FnOnce() -> Result<T, ParseError>,
    drain: impl FnOnce(T, &mut K),
) -> Tag {
    match guarded(ctx.call_scope, call) {
        Err(Caught::StepCap) => Tag::StepCap,
        Err(Caught::Panic) => Tag::PanicCall,
        Ok(Err(e)) => {
            let _g = alloc::ScopeGuard::enter(alloc::OFF);
            drop(e);
            Tag::Err
        }
        Ok(Ok(v)) => match guarded(ctx.drain_scope, || drain(v, k)) {
            Ok(()) => Tag::Ok,
            Err(Caught::StepCap) => Tag::StepCap,
            Err(Caught::Panic) => Tag::PanicDrain,
        },
    }
}

pub fn to_sh(s: &Shdr) -> SectionHeader {
    SectionHeader {
        sh_name: s.name,
        sh_type: s.typ,
        sh_flags: s.flags,
        sh_addr: s.addr,
        sh_offset: s.offset,
        sh_size: s.size,
        sh_link: s.link,
        sh_info: s.info,
        sh_addralign: s.addralign,
        sh_entsize: s.entsize,
    }
}
pub fn to_ph(p: &Phdr) -> ProgramHeader {
    ProgramHeader {
        p_type: p.typ,
        p_offset: p.offset,
        p_vaddr: p.vaddr,
        p_paddr: p.paddr,
        p_filesz: p.filesz,
        p_memsz: p.memsz,
        p_flags: p.flags,
        p_align: p.align,
    }
}

// ---------------------------------------------------------------------------------
// slice side
// ---------------------------------------------------------------------------------

/// `ElfBytes::minimal_parse` + observation of ehdr and both header tables.
/// Returns the handle when the open succeeded (also when only the drain panicked).
pub fn slice_open<'d, E: EndianParse, K: Sink>(
    ctx: &Ctx,
    data: &'d [u8],
    k: &mut K,
) -> (Tag, Option<ElfBytes<'d, E>>) {
    let caps = ctx.caps;
    let r = match guarded(ctx.call_scope, || ElfBytes::<E>::minimal_parse(data)) {
        Err(Caught::StepCap) => return (Tag::StepCap, None),
        Err(Caught::Panic) => return (Tag::PanicCall, None),
        Ok(r) => r,
    };
    match r {
        Err(e) => {
            let _g = alloc::ScopeGuard::enter(alloc::OFF);
            drop(e);
            (Tag::Err, None)
        }
        Ok(eb) => {
            let dr = guarded(ctx.drain_scope, || {
                o_ehdr(k, &eb.ehdr);
                match eb.section_headers() {
                    Some(t) => o_shdr_list(k, t.iter(), &caps),
                    None => o_shdr_list(k, core::iter::empty(), &caps),
                }
                match eb.segments() {
                    Some(t) => o_phdr_list(k, t.iter(), &caps),
                    None => o_phdr_list(k, core::iter::empty(), &caps),
                }
            });
            match dr {
                Ok(()) => (Tag::Ok, Some(eb)),
                Err(_) => (Tag::PanicDrain, Some(eb)),
            }
        }
    }
}

pub fn slice_op<E: EndianParse, K: Sink>(
    ctx: &Ctx,
    eb: &ElfBytes<'_, E>,
    op: &Op,
    k: &mut K,
) -> Tag {
    let caps = ctx.caps;
    match op {
        Op::Open => Tag::Err,
        Op::Segments => call_drain(
            ctx,
            k,
            || Ok(eb.segments()),
            |t, k| match t {
                Some(t) => o_phdr_list(k, t.iter(), &caps),
                None => o_phdr_list(k, core::iter::empty(), &caps),
            },
        ),
        Op::SectionHeaders => call_drain(
            ctx,
            k,
            || Ok(eb.section_headers()),
            |t, k| match t {
                Some(t) => o_shdr_list(k, t.iter(), &caps),
                None => o_shdr_list(k, core::iter::empty(), &caps),
            },
        ),
        Op::ShdrsWithStrtab => call_drain(
            ctx,
            k,
            || eb.section_headers_with_strtab(),
            |(t, st), k| {
                match t {
                    Some(t) => o_shdr_list(k, t.iter(), &caps),
                    None => o_shdr_list(k, core::iter::empty(), &caps),
                }
                o_opt_marker(k, st.is_some());
                if let Some(st) = st {
                    o_strtab(k, &st, &caps);
                }
            },
        ),
        Op::ByName(name) => call_drain(
            ctx,
            k,
            || eb.section_header_by_name(name),
            |r, k| {
                o_opt_marker(k, r.is_some());
                if let Some(s) = r {
                    o_shdr(k, &s);
                }
            },
        ),
        Op::SectionData(s) => {
            let sh = to_sh(s);
            call_drain(
                ctx,
                k,
                || eb.section_data(&sh),
                |(b, c), k| {
                    k.bytes(b);
                    o_chdr(k, &c);
                },
            )
        }
        Op::AsStrtab(s) => {
            let sh = to_sh(s);
            call_drain(
                ctx,
                k,
                || eb.section_data_as_strtab(&sh),
                |st, k| o_strtab(k, &st, &caps),
            )
        }
        Op::AsRels(s) => {
            let sh = to_sh(s);
            call_drain(
                ctx,
                k,
                || eb.section_data_as_rels(&sh),
                |it, k| o_rels(k, it, &caps),
            )
        }
        Op::AsRelas(s) => {
            let sh = to_sh(s);
            call_drain(
                ctx,
                k,
                || eb.section_data_as_relas(&sh),
                |it, k| o_relas(k, it, &caps),
            )
        }
        Op::AsNotes(s) => {
            let sh = to_sh(s);
            call_drain(
                ctx,
                k,
                || eb.section_data_as_notes(&sh),
                |it, k| o_notes(k, it, &caps),
            )
        }
        Op::SymbolTable => call_drain(
            ctx,
            k,
            || eb.symbol_table(),
            |r, k| {
                o_opt_marker(k, r.is_some());
                if let Some((t, s)) = r {
                    o_symtab(k, &t, &s, &caps);
                }
            },
        ),
        Op::DynSymTable => call_drain(
            ctx,
            k,
            || eb.dynamic_symbol_table(),
            |r, k| {
                o_opt_marker(k, r.is_some());
                if let Some((t, s)) = r {
                    o_symtab(k, &t, &s, &caps);
                }
            },
        ),
        Op::Dynamic => call_drain(
            ctx,
            k,
            || eb.dynamic(),
            |r, k| {
                o_opt_marker(k, r.is_some());
                if let Some(t) = r {
                    o_dyntab(k, &t, &caps);
                }
            },
        ),
        Op::SymVer => call_drain(
            ctx,
            k,
            || eb.symbol_version_table(),
            |r, k| {
                o_opt_marker(k, r.is_some());
                if let Some(t) = r {
                    o_symver(k, &t, &caps);
                }
            },
        ),
        Op::SegNotes(p) => {
            let ph = to_ph(p);
            call_drain(
                ctx,
                k,
                || eb.segment_data_as_notes(&ph),
                |it, k| o_notes(k, it, &caps),
            )
        }
        Op::SegmentData(p) => {
            let ph = to_ph(p);
            call_drain(ctx, k, || eb.segment_data(&ph), |b, k| k.bytes(b))
        }
        Op::FindCommon => call_drain(
            ctx,
            k,
            || eb.find_common_data(),
            |c, k| {
                o_opt_marker(k, c.symtab.is_some());
                if let (Some(t), Some(s)) = (&c.symtab, &c.symtab_strs) {
                    o_symtab(k, t, s, &caps);
                }
                o_opt_marker(k, c.dynsyms.is_some());
                if let (Some(t), Some(s)) = (&c.dynsyms, &c.dynsyms_strs) {
                    o_symtab(k, t, s, &caps);
                }
                o_opt_marker(k, c.dynamic.is_some());
                if let Some(t) = &c.dynamic {
                    o_dyntab(k, t, &caps);
                }
                o_opt_marker(k, c.sysv_hash.is_some());
                o_opt_marker(k, c.gnu_hash.is_some());
                if let (Some(t), Some(s)) = (&c.dynsyms, &c.dynsyms_strs) {
                    o_hash_finds(k, c.sysv_hash.as_ref(), c.gnu_hash.as_ref(), t, s);
                } else if let (Some(t), Some(s)) = (&c.symtab, &c.symtab_strs) {
                    o_hash_finds(k, c.sysv_hash.as_ref(), c.gnu_hash.as_ref(), t, s);
                }
            },
        ),
    }
}

// ---------------------------------------------------------------------------------
// stream side
// ---------------------------------------------------------------------------------

#[cfg(feature = "stream")]
pub use stream_side::*;

#[cfg(feature = "stream")]
mod stream_side {
    use super::*;
    use crate::reader::SimReader;
    use elf::ElfStream;

    pub fn stream_open<E: EndianParse, K: Sink>(
        ctx: &Ctx,
        rd: SimReader,
        k: &mut K,
    ) -> (Tag, Option<ElfStream<E, SimReader>>) {
        let caps = ctx.caps;
        let r = match guarded_pub(ctx.call_scope, || ElfStream::<E, SimReader>::open_stream(rd)) {
            Err(t) => return (t, None),
            Ok(r) => r,
        };
        match r {
            Err(e) => {
                let _g = alloc::ScopeGuard::enter(alloc::OFF);
                drop(e);
                (Tag::Err, None)
            }
            Ok(es) => {
                let dr = guarded_pub(ctx.drain_scope, || {
                    o_ehdr(k, &es.ehdr);
                    o_shdr_list(k, es.section_headers().iter().copied(), &caps);
                    o_phdr_list(k, es.segments().iter().copied(), &caps);
                });
                match dr {
                    Ok(()) => (Tag::Ok, Some(es)),
                    Err(Tag::StepCap) => (Tag::StepCap, Some(es)),
                    Err(_) => (Tag::PanicDrain, Some(es)),
                }
            }
        }
    }

    fn guarded_pub<T>(scope: u8, f: impl FnOnce() -> T) -> Result<T, Tag> {
        match guarded(scope, f) {
            Ok(v) => Ok(v),
            Err(Caught::StepCap) => Err(Tag::StepCap),
            Err(Caught::Panic) => Err(Tag::PanicCall),
        }
    }

    pub fn stream_op<E: EndianParse, K: Sink>(
        ctx: &Ctx,
        es: &mut ElfStream<E, SimReader>,
        op: &Op,
        k: &mut K,
    ) -> Tag {
        let caps = ctx.caps;
        match op {
            Op::Open | Op::SegmentData(_) | Op::FindCommon => Tag::Err,
            Op::Segments => call_drain(
                ctx,
                k,
                || Ok(es.segments()),
                |v, k| o_phdr_list(k, v.iter().copied(), &caps),
            ),
            Op::SectionHeaders => call_drain(
                ctx,
                k,
                || Ok(es.section_headers()),
                |v, k| o_shdr_list(k, v.iter().copied(), &caps),
            ),
            Op::ShdrsWithStrtab => call_drain(
                ctx,
                k,
                move || es.section_headers_with_strtab(),
                |(v, st), k| {
                    o_shdr_list(k, v.iter().copied(), &caps);
                    o_opt_marker(k, st.is_some());
                    if let Some(st) = st {
                        o_strtab(k, &st, &caps);
                    }
                },
            ),
            Op::ByName(name) => call_drain(
                ctx,
                k,
                move || es.section_header_by_name(name),
                |r, k| {
                    o_opt_marker(k, r.is_some());
                    if let Some(s) = r {
                        o_shdr(k, s);
                    }
                },
            ),
            Op::SectionData(s) => {
                let sh = to_sh(s);
                call_drain(
                    ctx,
                    k,
                    move || es.section_data(&sh),
                    |(b, c), k| {
                        k.bytes(b);
                        o_chdr(k, &c);
                    },
                )
            }
            Op::AsStrtab(s) => {
                let sh = to_sh(s);
                call_drain(
                    ctx,
                    k,
                    move || es.section_data_as_strtab(&sh),
                    |st, k| o_strtab(k, &st, &caps),
                )
            }
            Op::AsRels(s) => {
                let sh = to_sh(s);
                call_drain(
                    ctx,
                    k,
                    move || es.section_data_as_rels(&sh),
                    |it, k| o_rels(k, it, &caps),
                )
            }
            Op::AsRelas(s) => {
                let sh = to_sh(s);
                call_drain(
                    ctx,
                    k,
                    move || es.section_data_as_relas(&sh),
                    |it, k| o_relas(k, it, &caps),
                )
            }
            Op::AsNotes(s) => {
                let sh = to_sh(s);
                call_drain(
                    ctx,
                    k,
                    move || es.section_data_as_notes(&sh),
                    |it, k| o_notes(k, it, &caps),
                )
            }
            Op::SymbolTable => call_drain(
                ctx,
                k,
                move || es.symbol_table(),
                |r, k| {
                    o_opt_marker(k, r.is_some());
                    if let Some((t, s)) = r {
                        o_symtab(k, &t, &s, &caps);
                    }
                },
            ),
            Op::DynSymTable => call_drain(
                ctx,
                k,
                move || es.dynamic_symbol_table(),
                |r, k| {
                    o_opt_marker(k, r.is_some());
                    if let Some((t, s)) = r {
                        o_symtab(k, &t, &s, &caps);
                    }
                },
            ),
            Op::Dynamic => call_drain(
                ctx,
                k,
                move || es.dynamic(),
                |r, k| {
                    o_opt_marker(k, r.is_some());
                    if let Some(t) = r {
                        o_dyntab(k, &t, &caps);
                    }
                },
            ),
            Op::SymVer => call_drain(
                ctx,
                k,
                move || es.symbol_version_table(),
                |r, k| {
                    o_opt_marker(k, r.is_some());
                    if let Some(t) = r {
                        o_symver(k, &t, &caps);
                    }
                },
            ),
            Op::SegNotes(p) => {
                let ph = to_ph(p);
                call_drain(
                    ctx,
                    k,
                    move || es.segment_data_as_notes(&ph),
                    |it, k| o_notes(k, it, &caps),
                )
            }
        }
    }
}
