//! Independent header model: decodes ehdr / shdr / phdr fields straight from image bytes
//! with fixed offsets. Shares no code with the `elf` crate. Used for
//!  * C08's designated byte ranges, C07's compression scoping,
//!  * C18's structure boundaries and the headers-first re-layout of sample objects,
//!  * the corruption operators (field offset tables),
//!  * building synthetic header arguments.

#[derive(Clone, Copy, Debug, PartialEq, Eq, Default)]
pub struct Ehdr {
    pub class64: bool,
    pub be: bool,
    pub e_type: u16,
    pub e_machine: u16,
    pub e_version: u32,
    pub e_entry: u64,
    pub e_phoff: u64,
    pub e_shoff: u64,
    pub e_flags: u32,
    pub e_ehsize: u16,
    pub e_phentsize: u16,
    pub e_phnum: u16,
    pub e_shentsize: u16,
    pub e_shnum: u16,
    pub e_shstrndx: u16,
}

#[derive(Clone, Copy, Debug, PartialEq, Eq, Default, Hash)]
pub struct Shdr {
    pub name: u32,
    pub typ: u32,
    pub flags: u64,
    pub addr: u64,
    pub offset: u64,
    pub size: u64,
    pub link: u32,
    pub info: u32,
    pub addralign: u64,
    pub entsize: u64,
}

#[derive(Clone, Copy, Debug, PartialEq, Eq, Default, Hash)]
pub struct Phdr {
    pub typ: u32,
    pub flags: u32,
    pub offset: u64,
    pub vaddr: u64,
    pub paddr: u64,
    pub filesz: u64,
    pub memsz: u64,
    pub align: u64,
}

pub const SHT_NULL: u32 = 0;
pub const SHT_PROGBITS: u32 = 1;
pub const SHT_SYMTAB: u32 = 2;
pub const SHT_STRTAB: u32 = 3;
pub const SHT_RELA: u32 = 4;
pub const SHT_HASH: u32 = 5;
pub const SHT_DYNAMIC: u32 = 6;
pub const SHT_NOTE: u32 = 7;
pub const SHT_NOBITS: u32 = 8;
pub const SHT_REL: u32 = 9;
pub const SHT_DYNSYM: u32 = 11;
pub const SHT_GNU_HASH: u32 = 0x6fff_fff6;
pub const SHT_GNU_VERDEF: u32 = 0x6fff_fffd;
pub const SHT_GNU_VERNEED: u32 = 0x6fff_fffe;
pub const SHT_GNU_VERSYM: u32 = 0x6fff_ffff;
pub const SHF_COMPRESSED: u64 = 0x800;
pub const PT_NULL: u32 = 0;
pub const PT_LOAD: u32 = 1;
pub const PT_DYNAMIC: u32 = 2;
pub const PT_NOTE: u32 = 4;
pub const PN_XNUM: u16 = 0xffff;
pub const SHN_XINDEX: u16 = 0xffff;

#[inline]
pub fn rd(bytes: &[u8], off: usize, width: usize, be: bool) -> Option<u64> {
    let end = off.checked_add(width)?;
    let s = bytes.get(off..end)?;
    let mut v: u64 = 0;
    if be {
        for b in s {
            v = (v << 8) | *b as u64;
        }
    } else {
        for b in s.iter().rev() {
            v = (v << 8) | *b as u64;
        }
    }
    Some(v)
}

#[inline]
pub fn wr(bytes: &mut [u8], off: usize, width: usize, be: bool, v: u64) -> bool {
    let end = match off.checked_add(width) {
        Some(e) => e,
        None => return false,
    };
    let s = match bytes.get_mut(off..end) {
        Some(s) => s,
        None => return false,
    };
    for i in 0..width {
        let byte = ((v >> (8 * i)) & 0xff) as u8;
        if be {
            s[width - 1 - i] = byte;
        } else {
            s[i] = byte;
        }
    }
    true
}

pub fn ehsize(class64: bool) -> usize {
    if class64 {
        64
    } else {
        52
    }
}
pub fn shentsize(class64: bool) -> usize {
    if class64 {
        64
    } else {
        40
    }
}
pub fn phentsize(class64: bool) -> usize {
    if class64 {
        56
    } else {
        32
    }
}
pub fn symsize(class64: bool) -> usize {
    if class64 {
        24
    } else {
        16
    }
}
pub fn dynsize(class64: bool) -> usize {
    if class64 {
        16
    } else {
        8
    }
}

/// (name, offset, width) of the ehdr tail fields
pub fn ehdr_fields(class64: bool) -> &'static [(&'static str, usize, usize)] {
    if class64 {
        &[
            ("e_type", 16, 2),
            ("e_machine", 18, 2),
            ("e_version", 20, 4),
            ("e_entry", 24, 8),
            ("e_phoff", 32, 8),
            ("e_shoff", 40, 8),
            ("e_flags", 48, 4),
            ("e_ehsize", 52, 2),
            ("e_phentsize", 54, 2),
            ("e_phnum", 56, 2),
            ("e_shentsize", 58, 2),
            ("e_shnum", 60, 2),
            ("e_shstrndx", 62, 2),
        ]
    } else {
        &[
            ("e_type", 16, 2),
            ("e_machine", 18, 2),
            ("e_version", 20, 4),
            ("e_entry", 24, 4),
            ("e_phoff", 28, 4),
            ("e_shoff", 32, 4),
            ("e_flags", 36, 4),
            ("e_ehsize", 40, 2),
            ("e_phentsize", 42, 2),
            ("e_phnum", 44, 2),
            ("e_shentsize", 46, 2),
            ("e_shnum", 48, 2),
            ("e_shstrndx", 50, 2),
        ]
    }
}

pub fn shdr_fields(class64: bool) -> &'static [(&'static str, usize, usize)] {
    if class64 {
        &[
            ("sh_name", 0, 4),
            ("sh_type", 4, 4),
            ("sh_flags", 8, 8),
            ("sh_addr", 16, 8),
            ("sh_offset", 24, 8),
            ("sh_size", 32, 8),
            ("sh_link", 40, 4),
            ("sh_info", 44, 4),
            ("sh_addralign", 48, 8),
            ("sh_entsize", 56, 8),
        ]
    } else {
        &[
            ("sh_name", 0, 4),
            ("sh_type", 4, 4),
            ("sh_flags", 8, 4),
            ("sh_addr", 12, 4),
            ("sh_offset", 16, 4),
            ("sh_size", 20, 4),
            ("sh_link", 24, 4),
            ("sh_info", 28, 4),
            ("sh_addralign", 32, 4),
            ("sh_entsize", 36, 4),
        ]
    }
}

pub fn phdr_fields(class64: bool) -> &'static [(&'static str, usize, usize)] {
    if class64 {
        &[
            ("p_type", 0, 4),
            ("p_flags", 4, 4),
            ("p_offset", 8, 8),
            ("p_vaddr", 16, 8),
            ("p_paddr", 24, 8),
            ("p_filesz", 32, 8),
            ("p_memsz", 40, 8),
            ("p_align", 48, 8),
        ]
    } else {
        &[
            ("p_type", 0, 4),
            ("p_offset", 4, 4),
            ("p_vaddr", 8, 4),
            ("p_paddr", 12, 4),
            ("p_filesz", 16, 4),
            ("p_memsz", 20, 4),
            ("p_flags", 24, 4),
            ("p_align", 28, 4),
        ]
    }
}

fn field(tbl: &[(&'static str, usize, usize)], name: &str) -> (usize, usize) {
    for f in tbl {
        if f.0 == name {
            return (f.1, f.2);
        }
    }
    panic!("unknown field {}", name)
}

/// Decode the file header. `None` if the bytes are too short for the class or the ident
/// does not name a class (1/2) and a byte order (1/2). Magic / version are not judged here.
pub fn parse_ehdr(b: &[u8]) -> Option<Ehdr> {
    if b.len() < 16 {
        return None;
    }
    let class64 = match b[4] {
        1 => false,
        2 => true,
        _ => return None,
    };
    let be = match b[5] {
        1 => false,
        2 => true,
        _ => return None,
    };
    if b.len() < ehsize(class64) {
        return None;
    }
    let t = ehdr_fields(class64);
    let g = |n: &str| -> u64 {
        let (o, w) = field(t, n);
        rd(b, o, w, be).unwrap_or(0)
    };
    Some(Ehdr {
        class64,
        be,
        e_type: g("e_type") as u16,
        e_machine: g("e_machine") as u16,
        e_version: g("e_version") as u32,
        e_entry: g("e_entry"),
        e_phoff: g("e_phoff"),
        e_shoff: g("e_shoff"),
        e_flags: g("e_flags") as u32,
        e_ehsize: g("e_ehsize") as u16,
        e_phentsize: g("e_phentsize") as u16,
        e_phnum: g("e_phnum") as u16,
        e_shentsize: g("e_shentsize") as u16,
        e_shnum: g("e_shnum") as u16,
        e_shstrndx: g("e_shstrndx") as u16,
    })
}

pub fn parse_shdr(b: &[u8], off: usize, class64: bool, be: bool) -> Option<Shdr> {
    let end = off.checked_add(shentsize(class64))?;
    if end > b.len() {
        return None;
    }
    let t = shdr_fields(class64);
    let g = |n: &str| -> u64 {
        let (o, w) = field(t, n);
        rd(b, off + o, w, be).unwrap_or(0)
    };
    Some(Shdr {
        name: g("sh_name") as u32,
        typ: g("sh_type") as u32,
        flags: g("sh_flags"),
        addr: g("sh_addr"),
        offset: g("sh_offset"),
        size: g("sh_size"),
        link: g("sh_link") as u32,
        info: g("sh_info") as u32,
        addralign: g("sh_addralign"),
        entsize: g("sh_entsize"),
    })
}

pub fn parse_phdr(b: &[u8], off: usize, class64: bool, be: bool) -> Option<Phdr> {
    let end = off.checked_add(phentsize(class64))?;
    if end > b.len() {
        return None;
    }
    let t = phdr_fields(class64);
    let g = |n: &str| -> u64 {
        let (o, w) = field(t, n);
        rd(b, off + o, w, be).unwrap_or(0)
    };
    Some(Phdr {
        typ: g("p_type") as u32,
        flags: g("p_flags") as u32,
        offset: g("p_offset"),
        vaddr: g("p_vaddr"),
        paddr: g("p_paddr"),
        filesz: g("p_filesz"),
        memsz: g("p_memsz"),
        align: g("p_align"),
    })
}

pub fn write_shdr(out: &mut [u8], off: usize, class64: bool, be: bool, s: &Shdr) {
    let t = shdr_fields(class64);
    let mut p = |n: &str, v: u64| {
        let (o, w) = field(t, n);
        wr(out, off + o, w, be, v);
    };
    p("sh_name", s.name as u64);
    p("sh_type", s.typ as u64);
    p("sh_flags", s.flags);
    p("sh_addr", s.addr);
    p("sh_offset", s.offset);
    p("sh_size", s.size);
    p("sh_link", s.link as u64);
    p("sh_info", s.info as u64);
    p("sh_addralign", s.addralign);
    p("sh_entsize", s.entsize);
}

pub fn write_phdr(out: &mut [u8], off: usize, class64: bool, be: bool, s: &Phdr) {
    let t = phdr_fields(class64);
    let mut p = |n: &str, v: u64| {
        let (o, w) = field(t, n);
        wr(out, off + o, w, be, v);
    };
    p("p_type", s.typ as u64);
    p("p_flags", s.flags as u64);
    p("p_offset", s.offset);
    p("p_vaddr", s.vaddr);
    p("p_paddr", s.paddr);
    p("p_filesz", s.filesz);
    p("p_memsz", s.memsz);
    p("p_align", s.align);
}

pub fn write_ehdr(out: &mut [u8], e: &Ehdr) {
    out[0..4].copy_from_slice(&[0x7f, b'E', b'L', b'F']);
    out[4] = if e.class64 { 2 } else { 1 };
    out[5] = if e.be { 2 } else { 1 };
    out[6] = 1;
    let t = ehdr_fields(e.class64);
    let be = e.be;
    let mut p = |n: &str, v: u64| {
        let (o, w) = field(t, n);
        wr(out, o, w, be, v);
    };
    p("e_type", e.e_type as u64);
    p("e_machine", e.e_machine as u64);
    p("e_version", e.e_version as u64);
    p("e_entry", e.e_entry);
    p("e_phoff", e.e_phoff);
    p("e_shoff", e.e_shoff);
    p("e_flags", e.e_flags as u64);
    p("e_ehsize", e.e_ehsize as u64);
    p("e_phentsize", e.e_phentsize as u64);
    p("e_phnum", e.e_phnum as u64);
    p("e_shentsize", e.e_shentsize as u64);
    p("e_shnum", e.e_shnum as u64);
    p("e_shstrndx", e.e_shstrndx as u64);
}

/// A set of half-open byte ranges, kept sorted and merged.
#[derive(Clone, Debug, Default, PartialEq, Eq)]
pub struct RangeSet {
    pub r: Vec<(u64, u64)>,
}

impl RangeSet {
    pub fn new() -> RangeSet {
        RangeSet { r: Vec::new() }
    }
    pub fn add(&mut self, start: u64, end: u64) {
        if end <= start {
            return;
        }
        self.r.push((start, end));
        self.r.sort_unstable();
        let mut out: Vec<(u64, u64)> = Vec::with_capacity(self.r.len());
        for &(s, e) in self.r.iter() {
            if let Some(last) = out.last_mut() {
                if s <= last.1 {
                    if e > last.1 {
                        last.1 = e;
                    }
                    continue;
                }
            }
            out.push((s, e));
        }
        self.r = out;
    }
    /// Add `[off, off+size)` clipped to `[0, limit)`; arithmetic overflow clips to limit.
    pub fn add_clipped(&mut self, off: u64, size: u64, limit: u64) {
        let end = off.checked_add(size).unwrap_or(u64::MAX).min(limit);
        self.add(off.min(limit), end);
    }
    pub fn contains_range(&self, start: u64, end: u64) -> bool {
        if end <= start {
            return true;
        }
        self.r.iter().any(|&(s, e)| s <= start && end <= e)
    }
    /// First sub-range of [start,end) not covered by the set.
    pub fn first_uncovered(&self, start: u64, end: u64) -> Option<(u64, u64)> {
        let mut cur = start;
        for &(s, e) in self.r.iter() {
            if e <= cur {
                continue;
            }
            if s > cur {
                return Some((cur, s.min(end)));
            }
            cur = e;
            if cur >= end {
                return None;
            }
        }
        if cur < end {
            Some((cur, end))
        } else {
            None
        }
    }
    pub fn total(&self) -> u64 {
        self.r.iter().map(|&(s, e)| e - s).sum()
    }
}

/// What the model can say about an image.
#[derive(Clone, Debug, Default)]
pub struct Model {
    pub len: u64,
    pub ehdr: Option<Ehdr>,
    /// Resolved section count (extended numbering applied); None if not decodable.
    pub shnum: Option<u64>,
    pub phnum: Option<u64>,
    /// Section headers the model could decode (table entirely inside the file,
    /// class entry size). Empty when the table is absent or not decodable.
    pub shdrs: Vec<Shdr>,
    pub phdrs: Vec<Phdr>,
    /// e_shoff != 0 and the resolved count is 0
    pub present_but_empty_shdrs: bool,
    /// Bytes `open` may read.
    pub open_set: RangeSet,
}

/// Cap on how many headers the model decodes (sizes larger than the file are clipped anyway).
const MODEL_MAX_HDRS: u64 = 1 << 22;

impl Model {
    pub fn of(b: &[u8]) -> Model {
        let len = b.len() as u64;
        let mut m = Model {
            len,
            ..Default::default()
        };
        m.open_set.add_clipped(0, 16, len);
        let e = match parse_ehdr(b) {
            Some(e) => e,
            None => {
                // the tail read depends on the class byte only
                if b.len() >= 16 {
                    match b[4] {
                        1 => m.open_set.add_clipped(16, 36, len),
                        2 => m.open_set.add_clipped(16, 48, len),
                        _ => {}
                    }
                }
                return m;
            }
        };
        m.ehdr = Some(e);
        let c64 = e.class64;
        m.open_set.add_clipped(0, ehsize(c64) as u64, len);
        let shent = shentsize(c64) as u64;
        let phent = phentsize(c64) as u64;
        // "the header table" as the file header declares it: an implementation may fetch
        // count * declared entry size before it rejects a wrong entry size
        let shent_decl = shent.max(e.e_shentsize as u64);
        let phent_decl = phent.max(e.e_phentsize as u64);

        // shdr[0] is consulted when e_shnum == 0 (and e_shoff != 0) or e_phnum == PN_XNUM.
        let shdr0 = if e.e_shoff != 0 || e.e_phnum == PN_XNUM {
            usize::try_from(e.e_shoff)
                .ok()
                .and_then(|o| parse_shdr(b, o, c64, e.be))
        } else {
            None
        };
        if (e.e_shoff != 0 && e.e_shnum == 0) || (e.e_phoff != 0 && e.e_phnum == PN_XNUM) {
            m.open_set.add_clipped(e.e_shoff, shent_decl, len);
        }

        if e.e_shoff != 0 {
            let n = if e.e_shnum == 0 {
                shdr0.map(|s| s.size)
            } else {
                Some(e.e_shnum as u64)
            };
            m.shnum = n;
            if let Some(n) = n {
                if n == 0 {
                    m.present_but_empty_shdrs = true;
                }
                let sz = n.checked_mul(shent);
                m.open_set.add_clipped(
                    e.e_shoff,
                    n.checked_mul(shent_decl).unwrap_or(u64::MAX),
                    len,
                );
                if let Some(sz) = sz {
                    if let Some(end) = e.e_shoff.checked_add(sz) {
                        if end <= len && n <= MODEL_MAX_HDRS {
                            for i in 0..n {
                                let off = (e.e_shoff + i * shent) as usize;
                                if let Some(s) = parse_shdr(b, off, c64, e.be) {
                                    m.shdrs.push(s);
                                }
                            }
                        }
                    }
                }
            }
        } else {
            m.shnum = Some(0);
        }

        if e.e_phoff != 0 {
            let n = if e.e_phnum == PN_XNUM {
                shdr0.map(|s| s.info as u64)
            } else {
                Some(e.e_phnum as u64)
            };
            m.phnum = n;
            if let Some(n) = n {
                let sz = n.checked_mul(phent);
                m.open_set.add_clipped(
                    e.e_phoff,
                    n.checked_mul(phent_decl).unwrap_or(u64::MAX),
                    len,
                );
                if let Some(sz) = sz {
                    if let Some(end) = e.e_phoff.checked_add(sz) {
                        if end <= len && n <= MODEL_MAX_HDRS {
                            for i in 0..n {
                                let off = (e.e_phoff + i * phent) as usize;
                                if let Some(p) = parse_phdr(b, off, c64, e.be) {
                                    m.phdrs.push(p);
                                }
                            }
                        }
                    }
                }
            }
        } else {
            m.phnum = Some(0);
        }
        m
    }

    pub fn shdr_range(&self, s: &Shdr, out: &mut RangeSet) {
        out.add_clipped(s.offset, s.size, self.len);
    }

    /// Index of the section-name string table per the extended-numbering rule.
    pub fn shstrndx(&self) -> Option<usize> {
        let e = self.ehdr?;
        if e.e_shstrndx == 0 {
            return None;
        }
        let idx = if e.e_shstrndx == SHN_XINDEX {
            self.shdrs.first()?.link as usize
        } else {
            e.e_shstrndx as usize
        };
        Some(idx)
    }

    /// Sections whose bytes the op designates (by kind); over-approximates where the
    /// crate chooses among candidates (union over all candidates of that kind).
    pub fn designated_sections(&self, kind: DesKind) -> Vec<Shdr> {
        let mut v = Vec::new();
        let linked = |s: &Shdr, v: &mut Vec<Shdr>| {
            if let Some(l) = self.shdrs.get(s.link as usize) {
                v.push(*l);
            }
        };
        match kind {
            DesKind::ShStrTab => {
                if let Some(i) = self.shstrndx() {
                    if let Some(s) = self.shdrs.get(i) {
                        v.push(*s);
                    }
                }
            }
            DesKind::SymTab | DesKind::DynSym => {
                let t = if kind == DesKind::SymTab {
                    SHT_SYMTAB
                } else {
                    SHT_DYNSYM
                };
                // "the" symbol table of a file is its first section of that type (both
                // parsers, and C07 holds the stream to it): that section and the string
                // table it links to are what the query designates
                if let Some(s) = self.shdrs.iter().find(|s| s.typ == t) {
                    v.push(*s);
                    linked(s, &mut v);
                }
            }
            DesKind::Dynamic => {
                if let Some(s) = self.shdrs.iter().find(|s| s.typ == SHT_DYNAMIC) {
                    v.push(*s);
                }
            }
            DesKind::SymVer => {
                // without a VERSYM section the query answers "no symbol versioning" and
                // designates nothing at all
                if !self.shdrs.iter().any(|s| s.typ == SHT_GNU_VERSYM) {
                    return v;
                }
                for s in self.shdrs.iter() {
                    if s.typ == SHT_GNU_VERSYM {
                        v.push(*s);
                    } else if s.typ == SHT_GNU_VERNEED || s.typ == SHT_GNU_VERDEF {
                        v.push(*s);
                        linked(s, &mut v);
                    }
                }
            }
        }
        v
    }

    /// Designated byte set of a global (argument-less) op.
    pub fn designated_set(&self, kind: DesKind) -> RangeSet {
        let mut rs = RangeSet::new();
        for s in self.designated_sections(kind) {
            self.shdr_range(&s, &mut rs);
        }
        if kind == DesKind::Dynamic && self.shdrs.is_empty() {
            // the PT_DYNAMIC segment is consulted only when there are no section headers
            for p in self.phdrs.iter().filter(|p| p.typ == PT_DYNAMIC) {
                rs.add_clipped(p.offset, p.filesz, self.len);
            }
        }
        rs
    }

    /// Interesting offsets for crash points: every structure boundary the model knows.
    pub fn boundaries(&self) -> Vec<u64> {
        let mut v = vec![0, 16, self.len];
        if let Some(e) = self.ehdr {
            v.push(ehsize(e.class64) as u64);
            let shent = shentsize(e.class64) as u64;
            let phent = phentsize(e.class64) as u64;
            if e.e_shoff != 0 {
                v.push(e.e_shoff);
                v.push(e.e_shoff.saturating_add(shent));
                if let Some(n) = self.shnum {
                    v.push(e.e_shoff.saturating_add(n.saturating_mul(shent)));
                }
            }
            if e.e_phoff != 0 {
                v.push(e.e_phoff);
                if let Some(n) = self.phnum {
                    v.push(e.e_phoff.saturating_add(n.saturating_mul(phent)));
                }
            }
        }
        for s in self.shdrs.iter() {
            if s.typ != SHT_NOBITS {
                v.push(s.offset);
                v.push(s.offset.saturating_add(s.size));
            }
        }
        for p in self.phdrs.iter() {
            v.push(p.offset);
            v.push(p.offset.saturating_add(p.filesz));
        }
        v.retain(|x| *x <= self.len);
        v.sort_unstable();
        v.dedup();
        v
    }
}

#[derive(Clone, Copy, Debug, PartialEq, Eq)]
pub enum DesKind {
    ShStrTab,
    SymTab,
    DynSym,
    Dynamic,
    SymVer,
}

/// Re-lay-out an image headers-first: `ehdr' | phdrs' | shdrs' | original bytes`, with
/// e_phoff/e_shoff pointing at the early copies and every sh_offset/p_offset shifted by
/// the constant prefix length. Returns None when the model cannot decode both tables.
pub fn relayout_headers_first(b: &[u8]) -> Option<Vec<u8>> {
    let m = Model::of(b);
    let e = m.ehdr?;
    if m.shdrs.is_empty() && m.phdrs.is_empty() {
        return None;
    }
    if e.e_shnum == 0 && e.e_shoff != 0 {
        return None; // extended numbering: keep such samples as they are
    }
    if e.e_phnum == PN_XNUM {
        return None;
    }
    let c64 = e.class64;
    let eh = ehsize(c64);
    let pht = m.phdrs.len() * phentsize(c64);
    let sht = m.shdrs.len() * shentsize(c64);
    let prefix = (eh + pht + sht) as u64;
    let mut out = vec![0u8; eh + pht + sht];
    out[..eh].copy_from_slice(&b[..eh]);
    let mut ne = e;
    ne.e_phoff = if m.phdrs.is_empty() { 0 } else { eh as u64 };
    ne.e_shoff = if m.shdrs.is_empty() {
        0
    } else {
        (eh + pht) as u64
    };
    {
        // patch only offsets, keep every other ident/tail byte as in the original
        let t = ehdr_fields(c64);
        let (o, w) = field(t, "e_phoff");
        wr(&mut out, o, w, e.be, ne.e_phoff);
        let (o, w) = field(t, "e_shoff");
        wr(&mut out, o, w, e.be, ne.e_shoff);
    }
    for (i, p) in m.phdrs.iter().enumerate() {
        let mut p2 = *p;
        p2.offset = p.offset.wrapping_add(prefix);
        write_phdr(&mut out, eh + i * phentsize(c64), c64, e.be, &p2);
    }
    for (i, s) in m.shdrs.iter().enumerate() {
        let mut s2 = *s;
        if !(i == 0 && s.typ == SHT_NULL) {
            s2.offset = s.offset.wrapping_add(prefix);
        }
        write_shdr(&mut out, eh + pht + i * shentsize(c64), c64, e.be, &s2);
    }
    out.extend_from_slice(b);
    Some(out)
}
