//! Minimisation: delta debugging over a failing scenario while the same
//! (property, clause) persists. Bounded number of re-executions.

use crate::equiv::Violation;
use crate::scen::Scenario;

pub struct Minimizer<'a> {
    pub judge: &'a dyn Fn(&Scenario) -> Option<Violation>,
    pub budget: u32,
    pub used: u32,
    pub clause: String,
}

impl<'a> Minimizer<'a> {
    fn still_fails(&mut self, sc: &Scenario) -> Option<Violation> {
        if self.used >= self.budget {
            return None;
        }
        self.used += 1;
        match (self.judge)(sc) {
            Some(v) if v.clause == self.clause => Some(v),
            _ => None,
        }
    }

    pub fn run(&mut self, sc: &Scenario, v: &Violation) -> (Scenario, Violation) {
        let mut best = sc.clone();
        let mut best_v = v.clone();

        // (1) drop ops: chunks first, then single ops
        let mut chunk = (best.ops.len() / 2).max(1);
        while !best.ops.is_empty() && self.used < self.budget {
            let mut i = 0;
            let mut progress = false;
            while i < best.ops.len() && self.used < self.budget {
                let mut t = best.clone();
                let end = (i + chunk).min(t.ops.len());
                t.ops.drain(i..end);
                if let Some(nv) = self.still_fails(&t) {
                    best = t;
                    best_v = nv;
                    progress = true;
                } else {
                    i += chunk;
                }
            }
            if chunk == 1 {
                if !progress {
                    break;
                }
            } else {
                chunk /= 2;
            }
        }

        #[cfg(feature = "stream")]
        {
            use crate::reader::{Fault, Profile};
            // (2) drop fault overrides, demote sticky -> transient
            let mut i = 0;
            while i < best.reader.overrides.len() {
                let mut t = best.clone();
                t.reader.overrides.remove(i);
                if let Some(nv) = self.still_fails(&t) {
                    best = t;
                    best_v = nv;
                } else {
                    i += 1;
                }
            }
            for i in 0..best.reader.overrides.len() {
                let mut t = best.clone();
                let f = match t.reader.overrides[i].fault {
                    Fault::Fail { kind, sticky: true } => Some(Fault::Fail {
                        kind,
                        sticky: false,
                    }),
                    Fault::EofEarly { sticky: true } => Some(Fault::EofEarly { sticky: false }),
                    _ => None,
                };
                if let Some(f) = f {
                    t.reader.overrides[i].fault = f;
                    if let Some(nv) = self.still_fails(&t) {
                        best = t;
                        best_v = nv;
                    }
                }
            }
            if best.reader.heal_at_epilogue {
                let mut t = best.clone();
                t.reader.heal_at_epilogue = false;
                if let Some(nv) = self.still_fails(&t) {
                    best = t;
                    best_v = nv;
                }
            }
            if best.epilogue {
                let mut t = best.clone();
                t.epilogue = false;
                if let Some(nv) = self.still_fails(&t) {
                    best = t;
                    best_v = nv;
                }
            }
            // (3) simplify the reader profile toward `full`
            if !best.reader.profile.is_full() {
                let cands = [
                    Profile::FULL,
                    Profile {
                        eintr_p: 0,
                        ..best.reader.profile
                    },
                    Profile {
                        short_p: 0,
                        ..best.reader.profile
                    },
                ];
                for p in cands {
                    if p == best.reader.profile {
                        continue;
                    }
                    let mut t = best.clone();
                    t.reader.profile = p;
                    if let Some(nv) = self.still_fails(&t) {
                        best = t;
                        best_v = nv;
                        if p.is_full() {
                            break;
                        }
                    }
                }
            }
            if best.reader.init_pos != 0 {
                let mut t = best.clone();
                t.reader.init_pos = 0;
                if let Some(nv) = self.still_fails(&t) {
                    best = t;
                    best_v = nv;
                }
            }
        }

        // (5) C18: move the crash point to a smaller one that still fails
        if best.durable_len < best.image.len() {
            loop {
                let p = best.durable_len;
                let mut moved = false;
                for cand in [p / 2, p.saturating_sub(64), p.saturating_sub(8), p.saturating_sub(1)] {
                    if cand >= p {
                        continue;
                    }
                    let mut t = best.clone();
                    t.durable_len = cand;
                    if let Some(nv) = self.still_fails(&t) {
                        best = t;
                        best_v = nv;
                        moved = true;
                        break;
                    }
                }
                if !moved || self.used >= self.budget {
                    break;
                }
            }
        }
        // shrink an appended suffix
        while best.suffix.len() > 1 {
            let mut t = best.clone();
            let n = t.suffix.len() / 2;
            t.suffix.truncate(n);
            if let Some(nv) = self.still_fails(&t) {
                best = t;
                best_v = nv;
            } else {
                break;
            }
        }
        (best, best_v)
    }
}
