//! C08 extras: a systematic sweep `field x boundary value` over base images (every stream
//! op is then applied), and a handful of multi-MiB images with >= 0xff00 real section
//! headers / >= 0xffff program headers so the large-Vec path runs at scale.

use crate::equiv::prop_id;
use crate::gen::{self, Bias, GenParams, Samples};
use crate::hdr::{self, Model};
use crate::json::J;
use crate::reader::{Profile, ReaderCfg};
use crate::rng::{mix, Rng};
use crate::scen::{Scenario, Spec};
use crate::workload;

pub const BASE_IMAGES: u64 = 48;
pub const HUGE_CASES: u64 = 24;

const EHDR_FIELDS: [&str; 7] = [
    "e_phoff",
    "e_shoff",
    "e_phnum",
    "e_shnum",
    "e_shstrndx",
    "e_shentsize",
    "e_phentsize",
];
const SHDR0_FIELDS: [&str; 3] = ["sh_size", "sh_info", "sh_link"];
const SHDR_FIELDS: [&str; 5] = ["sh_offset", "sh_size", "sh_link", "sh_entsize", "sh_info"];
const PHDR_FIELDS: [&str; 2] = ["p_offset", "p_filesz"];
/// number of section / segment slots swept per image
const SH_SLOTS: u64 = 6;
const PH_SLOTS: u64 = 3;
const VALUES: u64 = 19;

fn fields_per_image() -> u64 {
    EHDR_FIELDS.len() as u64
        + SHDR0_FIELDS.len() as u64
        + SH_SLOTS * SHDR_FIELDS.len() as u64
        + PH_SLOTS * PHDR_FIELDS.len() as u64
}

pub fn sweep_cases() -> u64 {
    BASE_IMAGES * fields_per_image() * VALUES
}

/// Boundary value `i` for a field of `width` bytes whose intact value is `orig`. The last
/// two are *wrapping twins* of the intact value: a value that differs from a perfectly
/// valid one only above bit 31 (bit 15 for 4-byte fields), resp. in its top bit, so that a
/// narrowing conversion somewhere turns an impossible claim back into the valid one.
fn value(i: u64, len: u64, width: usize, orig: u64) -> u64 {
    let t = [
        0u64,
        1,
        len.saturating_sub(1),
        len,
        len + 1,
        5 * len + 10000,
        1 << 31,
        (1 << 32) - 1,
        1 << 63,
        u64::MAX,
        4 * len + 8192,
        4 * len + 16384,
        4 * len + 16385,
        4 * len + 8193,
        len / 2,
        0xff00,
        0xffff,
        if width >= 8 { orig.wrapping_add(1 << 32) } else { orig.wrapping_add(1 << 16) },
        orig ^ (1u64 << (8 * width.min(8) - 1)),
    ];
    let v = t[(i % VALUES) as usize];
    if width >= 8 {
        v
    } else {
        v & ((1u64 << (8 * width)) - 1)
    }
}

fn lookup(tbl: &[(&'static str, usize, usize)], name: &str) -> (usize, usize) {
    let f = tbl.iter().find(|x| x.0 == name).unwrap();
    (f.1, f.2)
}

pub fn huge_image(rng: &mut Rng, k: u64) -> (Vec<u8>, J) {
    // over 12 consecutive k every (class, order, shstrndx variant) combination occurs
    let c64 = k % 2 == 0;
    let be = (k / 2) % 2 == 0;
    let nsec: usize = if k % 5 != 4 { 0xff00 + rng.urange(1, 0x40) } else { 3 };
    let nph: usize = if k % 3 != 2 { 0xffff + rng.urange(0, 0x20) } else { 2 };
    let eh = hdr::ehsize(c64);
    let shent = hdr::shentsize(c64);
    let phent = hdr::phentsize(c64);
    let phoff = eh;
    let shoff = phoff + nph * phent;
    let data_off = shoff + nsec * shent;
    let mut out = vec![0u8; data_off + 64];
    // two different name tables in the data area: [data_off+0, +24) and [data_off+32, +56)
    let names_a = b"\0.first\0.aa\0.bb\0.cc\0.dd\0";
    let names_b = b"\0.other\0.xx\0.yy\0.zz\0.ww\0";
    out[data_off..data_off + names_a.len()].copy_from_slice(names_a);
    out[data_off + 32..data_off + 32 + names_b.len()].copy_from_slice(names_b);
    for i in 0..nph {
        let p = hdr::Phdr {
            typ: if i % 7 == 0 { hdr::PT_LOAD } else { hdr::PT_NULL },
            flags: 4,
            offset: data_off as u64,
            filesz: 16,
            memsz: 16,
            align: 4,
            ..Default::default()
        };
        hdr::write_phdr(&mut out, phoff + i * phent, c64, be, &p);
    }
    for i in 1..nsec {
        let mut s = hdr::Shdr {
            name: [1u32, 8, 12, 16, 20][i % 5],
            typ: if i % 5 == 0 { hdr::SHT_PROGBITS } else { hdr::SHT_NULL },
            offset: data_off as u64 + (i % 32) as u64,
            size: (i % 17) as u64,
            addralign: 1,
            ..Default::default()
        };
        if i == 2 {
            // a name table at a small index ...
            s.typ = hdr::SHT_STRTAB;
            s.offset = data_off as u64;
            s.size = names_a.len() as u64;
        }
        if i == nsec - 1 && nsec > 2 {
            // ... and another one at the last index (>= 0xff00 in the big variants)
            s.typ = hdr::SHT_STRTAB;
            s.offset = data_off as u64 + 32;
            s.size = names_b.len() as u64;
        }
        hdr::write_shdr(&mut out, shoff + i * shent, c64, be, &s);
    }
    // which table names the sections: the last index written directly into e_shstrndx
    // (a reserved-range value when nsec > 0xff00), the SHN_XINDEX escape, or the small one
    let shstr_variant = k % 3;
    let last = (nsec - 1) as u32;
    let xsh = nsec >= 0xff00;
    let xph = nph >= 0xffff;
    let shdr0 = hdr::Shdr {
        size: if xsh { nsec as u64 } else { 0 },
        info: if xph { nph as u32 } else { 0 },
        // sh_link always names the *small* table unless the escape variant is in use, so
        // that a parser taking the escape wrongly reads different names
        link: if shstr_variant == 1 { last } else { 2 },
        ..Default::default()
    };
    hdr::write_shdr(&mut out, shoff, c64, be, &shdr0);
    let e = hdr::Ehdr {
        class64: c64,
        be,
        e_type: 2,
        e_machine: 62,
        e_version: 1,
        e_phoff: phoff as u64,
        e_shoff: shoff as u64,
        e_ehsize: eh as u16,
        e_phentsize: phent as u16,
        e_phnum: if xph { 0xffff } else { nph as u16 },
        e_shentsize: shent as u16,
        e_shnum: if xsh { 0 } else { nsec as u16 },
        e_shstrndx: match shstr_variant {
            0 => last.min(0xfffe) as u16,
            1 => 0xffff,
            _ => 2,
        },
        ..Default::default()
    };
    hdr::write_ehdr(&mut out, &e);
    let recipe = J::obj()
        .with("source", J::s("huge-tables"))
        .with("shstrndx_variant", J::s(["direct-last-index", "SHN_XINDEX-escape", "small-index"][shstr_variant as usize]))
        .with("class", J::s(if c64 { "ELF64" } else { "ELF32" }))
        .with("order", J::s(if be { "MSB" } else { "LSB" }))
        .with("real_section_headers", J::u(nsec as u64))
        .with("real_program_headers", J::u(nph as u64))
        .with("len", J::u(out.len() as u64))
        .with("class_sig", J::u(0x4000_0000 | k));
    (out, recipe)
}

/// Extra case k of the C08 check (sweep cases first, then huge-table images).
const SWEEP_PROFILES: [Profile; 8] = [
    Profile { short_p: 0, short_max: 1, eintr_p: 0 },
    Profile { short_p: 256, short_max: 1, eintr_p: 0 },
    Profile { short_p: 256, short_max: 7, eintr_p: 0 },
    Profile { short_p: 96, short_max: 64, eintr_p: 0 },
    Profile { short_p: 200, short_max: 4096, eintr_p: 0 },
    Profile { short_p: 0, short_max: 1, eintr_p: 51 },
    Profile { short_p: 160, short_max: 3, eintr_p: 51 },
    Profile { short_p: 256, short_max: 1024, eintr_p: 16 },
];

/// Deterministic sweep over the real sample objects: every sample (raw and re-laid-out
/// headers-first) x every endian spec x a fixed list of reader profiles, each with the
/// canonical full stream query set asked twice.
pub fn sample_cases(samples: &Samples) -> u64 {
    ((samples.raw.len() + samples.relaid.len()) * 3 * SWEEP_PROFILES.len()) as u64
}

fn sample_scenario(prop: &str, seed: u64, k: u64, tier: &str, samples: &Samples) -> Scenario {
    let np = SWEEP_PROFILES.len() as u64;
    let profile = SWEEP_PROFILES[(k % np) as usize];
    let spec = [Spec::Any, Spec::Le, Spec::Be][((k / np) % 3) as usize];
    let idx = (k / (np * 3)) as usize;
    let (name, bytes, relaid) = if idx < samples.raw.len() {
        (samples.raw[idx].0.clone(), samples.raw[idx].1.clone(), false)
    } else {
        let j = idx - samples.raw.len();
        (samples.relaid[j].0.clone(), samples.relaid[j].1.clone(), true)
    };
    let model = Model::of(&bytes);
    let mut ops = workload::full_query_set(&bytes, &model, false);
    ops.truncate(200);
    // second pass: everything again (cache hits), in reverse order
    let n = ops.len() as u32;
    let again: Vec<crate::ops::OpRec> = ops
        .iter()
        .rev()
        .enumerate()
        .map(|(i, o)| crate::ops::OpRec {
            id: n + 1 + i as u32,
            op: o.op.clone(),
        })
        .collect();
    ops.extend(again);
    let run_seed = mix(mix(seed, prop_id(prop) ^ 0x5a3e), k);
    let len = bytes.len() as u64;
    Scenario {
        prop: prop.to_string(),
        seed,
        run: k,
        tier: tier.to_string(),
        spec,
        durable_len: bytes.len(),
        recipe: J::obj()
            .with("source", J::s(if relaid { "sample-relaid-headers-first" } else { "sample" }))
            .with("name", J::Str(name))
            .with("len", J::u(len))
            .with("class_sig", J::u(0x6000_0000_0000 | k)),
        image: bytes,
        suffix: Vec::new(),
        ops,
        reader: ReaderCfg {
            run_seed,
            profile,
            init_pos: (k * 7919) % (len + 6),
            overrides: Vec::new(),
            heal_at_epilogue: false,
            clean_after_failure: false,
        },
        epilogue: false,
        mode: "sample-sweep".into(),
    }
}

/// Byte-pressure histories: a cache that limits the *bytes* it holds (and forgets, evicts
/// or starts over when the limit is reached) only shows when a multi-range accessor's
/// second load crosses the limit while its first range is freshly cached. Fillers are
/// overlapping ranges of one 1 MiB section (distinct keys, so they all count), sized so
/// that the cached total sits just below a power-of-two limit when the accessor is called.
pub fn byte_pressure_cases(thorough: bool) -> u64 {
    if thorough {
        8
    } else {
        6
    }
}

fn byte_pressure_scenario(prop: &str, seed: u64, k: u64, tier: &str) -> Scenario {
    let thorough = tier == "thorough";
    let kib = 1024u64;
    let limits: Vec<u64> = if thorough {
        vec![64, 128, 256, 512, 1024, 2048, 4096, 8192, 16384, 32768, 65536, 24576]
    } else {
        vec![64, 128, 256, 512, 1024, 2048, 4096, 8192, 16384]
    };
    let per = 3usize;
    let groups = (limits.len() + per - 1) / per;
    let g = (k as usize) % groups;
    let mut mine: Vec<u64> = limits.iter().skip(g * per).take(per).map(|v| v * kib).collect();
    mine.sort_unstable();
    let run_seed = mix(mix(seed, prop_id("C08") ^ 0xb17e), k);
    let mut gr = Rng::sub(mix(mix(seed, 0xb17e), k), 1);
    let mut p = GenParams::draw(&mut gr, Bias::Equiv, false);
    p.c64 = (k as usize / groups) % 2 == 0;
    p.with_shdrs = true;
    p.symtab = true;
    p.dynsym = true;
    p.versions = true;
    p.nsyms = 8;
    p.big = 1 << 20;
    p.many_sections = 0;
    p.relink = false;
    p.aliases = 0;
    p.dup_kinds = false;
    p.compressed = false;
    p.xnum_zero = false;
    p.xnum_sh = false;
    p.max_pad = 0;
    let bytes = gen::build(&mut gr, &p);
    let m = Model::of(&bytes);
    let big = m
        .shdrs
        .iter()
        .filter(|s| s.typ == hdr::SHT_PROGBITS)
        .max_by_key(|s| s.size)
        .copied()
        .unwrap_or_default();
    let find = |t: u32| m.shdrs.iter().find(|s| s.typ == t).copied();
    let linked = |s: &hdr::Shdr| m.shdrs.get(s.link as usize).copied();
    // (accessor, its ranges in load order)
    let mut stages: Vec<(crate::ops::Op, Vec<hdr::Shdr>)> = Vec::new();
    if let Some(d) = find(hdr::SHT_DYNSYM) {
        let mut v = vec![d];
        v.extend(linked(&d));
        stages.push((crate::ops::Op::DynSymTable, v));
    }
    if let Some(vs) = find(hdr::SHT_GNU_VERSYM) {
        let mut v = vec![vs];
        for t in [hdr::SHT_GNU_VERNEED, hdr::SHT_GNU_VERDEF] {
            if let Some(x) = find(t) {
                v.push(x);
                v.extend(linked(&x));
            }
        }
        stages.push((crate::ops::Op::SymVer, v));
    }
    if let Some(st) = find(hdr::SHT_SYMTAB) {
        let mut v = vec![st];
        v.extend(linked(&st));
        stages.push((crate::ops::Op::SymbolTable, v));
    }
    let mut ops: Vec<crate::ops::Op> = Vec::new();
    let mut cached: Vec<(u64, u64)> = Vec::new();
    let mut total: u64 = 0;
    let mut filler_id: u64 = 0;
    for (i, (op, ranges)) in stages.iter().enumerate() {
        let limit = match mine.get(i) {
            Some(l) => *l,
            None => break,
        };
        // sizes of the first two ranges this accessor will actually load
        let fresh: Vec<&hdr::Shdr> = ranges
            .iter()
            .filter(|r| !cached.contains(&(r.offset, r.size)))
            .collect();
        if fresh.len() >= 2 && big.size > 4096 {
            let a = fresh[0].size;
            let b = fresh[1].size.max(2);
            let target = limit.saturating_sub(a + b / 2);
            while total < target && filler_id < 100 {
                let need = target - total;
                let max_len = big.size - 64;
                let len = need.min(max_len - (filler_id % 32));
                if len == 0 {
                    break;
                }
                let off = big.offset + (filler_id % 48);
                filler_id += 1;
                if cached.contains(&(off, len)) {
                    continue;
                }
                cached.push((off, len));
                total += len;
                ops.push(crate::ops::Op::SectionData(hdr::Shdr {
                    typ: hdr::SHT_PROGBITS,
                    offset: off,
                    size: len,
                    addralign: 1,
                    ..Default::default()
                }));
            }
        }
        ops.push(op.clone());
        for r in ranges.iter() {
            if !cached.contains(&(r.offset, r.size)) {
                cached.push((r.offset, r.size));
                total += r.size;
            }
        }
    }
    // once more, everything should be served from the cache
    for (op, _) in stages.iter() {
        ops.push(op.clone());
    }
    let len = bytes.len() as u64;
    let mut io = Rng::sub(run_seed, 3);
    Scenario {
        prop: prop.to_string(),
        seed,
        run: k,
        tier: tier.to_string(),
        spec: Spec::Any,
        durable_len: bytes.len(),
        recipe: J::obj()
            .with("source", J::s("generated-byte-pressure"))
            .with("params", p.to_json())
            .with("limits_targeted", J::Arr(mine.iter().map(|v| J::u(*v)).collect()))
            .with("len", J::u(len))
            .with("class_sig", J::u(0x7000_0000_0000 | k)),
        image: bytes,
        suffix: Vec::new(),
        ops: ops
            .into_iter()
            .enumerate()
            .map(|(i, op)| crate::ops::OpRec {
                id: (i + 1) as u32,
                op,
            })
            .collect(),
        reader: ReaderCfg {
            run_seed,
            profile: Profile {
                short_p: 32,
                short_max: 8192,
                eintr_p: 4,
            },
            init_pos: io.below(len + 6),
            overrides: Vec::new(),
            heal_at_epilogue: false,
            clean_after_failure: false,
        },
        epilogue: false,
        mode: "byte-pressure".into(),
    }
}

/// One case of the field sweep: base image `img_idx` (depends on (seed, img_idx) only) with
/// field `f_idx` set to boundary value `v_idx`. `force64` makes the base image ELF64 (the
/// pointer-width pass: only 8-byte fields can claim more than a 32-bit host can address).
pub fn sweep_image(seed: u64, img_idx: u64, f_idx: u64, v_idx: u64, force64: bool) -> (Vec<u8>, J) {
    // the base image depends on (seed, img_idx) only
    let mut g = Rng::sub(mix(mix(seed, 0xba5e), img_idx), 1);
    let mut p = GenParams::draw(&mut g, Bias::Lies, false);
    p.with_shdrs = true;
    p.with_phdrs = true;
    p.dynsym = true;
    p.symtab = true;
    p.versions = true;
    p.dynamic = true;
    p.notes = p.notes.max(1);
    p.xnum_sh = img_idx % 3 == 1;
    p.xnum_ph = img_idx % 3 == 2;
    p.xindex = img_idx % 4 == 3;
    p.xnum_zero = false;
    p.big = 0;
    p.many_sections = 0;
    p.relink = false;
    if force64 {
        p.c64 = true;
    }
    let mut b = gen::build(&mut g, &p);
    let m = Model::of(&b);
    let e = m.ehdr.unwrap();
    let len = b.len() as u64;
    let mut f = f_idx as usize;
    let desc;
    if f < EHDR_FIELDS.len() {
        let (o, w) = lookup(hdr::ehdr_fields(e.class64), EHDR_FIELDS[f]);
        let v = value(v_idx, len, w, hdr::rd(&b, o, w, e.be).unwrap_or(0));
        hdr::wr(&mut b, o, w, e.be, v);
        desc = format!("ehdr.{}={}", EHDR_FIELDS[f], v);
    } else {
        f -= EHDR_FIELDS.len();
        if f < SHDR0_FIELDS.len() {
            let (o, w) = lookup(hdr::shdr_fields(e.class64), SHDR0_FIELDS[f]);
            let at = e.e_shoff as usize + o;
            let v = value(v_idx, len, w, hdr::rd(&b, at, w, e.be).unwrap_or(0));
            hdr::wr(&mut b, at, w, e.be, v);
            desc = format!("shdr[0].{}={}", SHDR0_FIELDS[f], v);
        } else {
            f -= SHDR0_FIELDS.len();
            if f < (SH_SLOTS as usize) * SHDR_FIELDS.len() {
                let slot = f / SHDR_FIELDS.len();
                let fld = SHDR_FIELDS[f % SHDR_FIELDS.len()];
                // slots pick the interesting kinds first
                let kinds = [
                    hdr::SHT_SYMTAB,
                    hdr::SHT_DYNSYM,
                    hdr::SHT_GNU_VERSYM,
                    hdr::SHT_GNU_VERNEED,
                    hdr::SHT_DYNAMIC,
                    hdr::SHT_STRTAB,
                ];
                let idx = m
                    .shdrs
                    .iter()
                    .position(|s| s.typ == kinds[slot % kinds.len()])
                    .unwrap_or(slot % m.shdrs.len().max(1));
                let (o, w) = lookup(hdr::shdr_fields(e.class64), fld);
                let at = e.e_shoff as usize + idx * hdr::shentsize(e.class64) + o;
                let v = value(v_idx, len, w, hdr::rd(&b, at, w, e.be).unwrap_or(0));
                hdr::wr(&mut b, at, w, e.be, v);
                desc = format!("shdr[{}].{}={}", idx, fld, v);
            } else {
                f -= (SH_SLOTS as usize) * SHDR_FIELDS.len();
                let slot = f / PHDR_FIELDS.len();
                let fld = PHDR_FIELDS[f % PHDR_FIELDS.len()];
                let idx = if slot == 0 {
                    m.phdrs.iter().position(|p| p.typ == hdr::PT_NOTE).unwrap_or(0)
                } else if slot == 1 {
                    m.phdrs.iter().position(|p| p.typ == hdr::PT_DYNAMIC).unwrap_or(0)
                } else {
                    slot % m.phdrs.len().max(1)
                };
                let (o, w) = lookup(hdr::phdr_fields(e.class64), fld);
                let at = e.e_phoff as usize + idx * hdr::phentsize(e.class64) + o;
                let v = value(v_idx, len, w, hdr::rd(&b, at, w, e.be).unwrap_or(0));
                hdr::wr(&mut b, at, w, e.be, v);
                desc = format!("phdr[{}].{}={}", idx, fld, v);
            }
        }
    }
    let recipe = J::obj()
        .with("source", J::s("generated-sweep"))
        .with("params", p.to_json())
        .with("base_image", J::u(img_idx))
        .with("set", J::Str(desc))
        .with("len", J::u(b.len() as u64))
        .with("class_sig", J::u(0x2000_0000_0000 | (f_idx << 8) | v_idx));
    (b, recipe)
}

pub fn build_extra_scenario(prop: &str, seed: u64, k: u64, tier: &str, samples: &Samples) -> Scenario {
    let ns = sample_cases(samples);
    if k < ns {
        return sample_scenario(prop, seed, k, tier, samples);
    }
    let k = k - ns;
    let nb = byte_pressure_cases(tier == "thorough");
    if k < nb {
        return byte_pressure_scenario(prop, seed, k, tier);
    }
    let k = k - nb;
    let thorough = tier == "thorough";
    // field sweep first, then the huge-table images (both for C07 and C08)
    let n_sweep = sweep_cases();
    let run_seed = mix(mix(seed, prop_id("C08") ^ 0x5eed), k);
    let mut io = Rng::sub(run_seed, 3);
    let (bytes, recipe, mode) = if k >= n_sweep {
        let mut g = Rng::sub(run_seed, 1);
        let (b, r) = huge_image(&mut g, k - n_sweep);
        (b, r, "huge-tables")
    } else {
        // quick tier walks the case space with a stride so that all fields are met
        let case = k;
        let per = fields_per_image() * VALUES;
        let img_idx = case / per;
        let f_idx = (case % per) / VALUES;
        let v_idx = case % VALUES;
        let (b, recipe) = sweep_image(seed, img_idx, f_idx, v_idx, false);
        (b, recipe, "field-sweep")
    };
    let model = Model::of(&bytes);
    // ops: the full stream query set (original headers come from the *corrupted* image's
    // model when decodable) + a couple of repeats
    let mut ops = workload::full_query_set(&bytes, &model, false);
    if mode == "huge-tables" {
        ops.truncate(24);
    } else {
        ops.truncate(160);
    }
    let len = bytes.len() as u64;
    if mode == "huge-tables" {
        // name lookups are what the big tables are for
        let n = ops.len() as u32;
        for (j, name) in [".first", ".other", ".aa", ".xx", ".absent"].iter().enumerate() {
            ops.push(crate::ops::OpRec {
                id: n + 1 + j as u32,
                op: crate::ops::Op::ByName((*name).to_string()),
            });
        }
    }
    Scenario {
        prop: prop.to_string(),
        seed,
        run: k,
        tier: tier.to_string(),
        spec: Spec::Any,
        durable_len: bytes.len(),
        image: bytes,
        suffix: Vec::new(),
        ops,
        reader: ReaderCfg {
            run_seed,
            profile: if mode == "huge-tables" {
                Profile {
                    short_p: 64,
                    short_max: 4096,
                    eintr_p: 8,
                }
            } else {
                workload::draw_profile(&mut io)
            },
            init_pos: io.below(len + 6),
            overrides: Vec::new(),
            heal_at_epilogue: false,
            clean_after_failure: false,
        },
        epilogue: false,
        recipe,
        mode: mode.into(),
    }
}

/// Boundary values of the pointer-width pass (indices into `value`), the wrapping twin
/// `intact + 2^32` every other case: 5*len+10000, 2^32-1, 2^63, top bit flipped, u64::MAX.
const PTR32_VALUES: [u64; 8] = [17, 5, 17, 7, 17, 8, 18, 9];

/// Field indices (in `sweep_image`'s numbering) of the 8-byte fields of an ELF64 image:
/// e_phoff, e_shoff, shdr[0].sh_size, sh_offset / sh_size / sh_entsize of the six section
/// slots, p_offset / p_filesz of the three segment slots.
fn wide_fields() -> Vec<u64> {
    // offsets and sizes first (the quick tier visits the first 16 only), entry sizes last
    let mut v = vec![0u64, 1, EHDR_FIELDS.len() as u64];
    let sh_base = (EHDR_FIELDS.len() + SHDR0_FIELDS.len()) as u64;
    for s in 0..SH_SLOTS {
        for k in [0u64, 1] {
            v.push(sh_base + s * SHDR_FIELDS.len() as u64 + k);
        }
    }
    let ph_base = sh_base + SH_SLOTS * SHDR_FIELDS.len() as u64;
    for i in 0..PH_SLOTS * PHDR_FIELDS.len() as u64 {
        v.push(ph_base + i);
    }
    for s in 0..SH_SLOTS {
        v.push(sh_base + s * SHDR_FIELDS.len() as u64 + 3);
    }
    v
}

/// (number of 8-byte fields, number of values, number of base images)
pub fn ptr32_dims() -> (u64, u64, u64) {
    (wide_fields().len() as u64, PTR32_VALUES.len() as u64, BASE_IMAGES)
}

pub fn ptr32_cases() -> u64 {
    BASE_IMAGES * wide_fields().len() as u64 * PTR32_VALUES.len() as u64
}

/// Case `j` of the pointer-width pass: an ELF64 field-sweep image whose swept 8-byte field
/// cannot be represented in 32 bits (or is a wrapping twin of the intact value), with the full
/// stream query set. It is meant to be executed on a host whose `usize` is 32 bits (the
/// simulator interpreted by Miri for i686-unknown-linux-gnu), where `u64 -> usize`
/// conversions in the crate can fail or, if written as a cast, silently truncate.
pub fn ptr32_scenario(prop: &str, seed: u64, j: u64) -> Scenario {
    let j = j % ptr32_cases();
    let nv = PTR32_VALUES.len() as u64;
    let wide = wide_fields();
    let per = wide.len() as u64 * nv;
    let img_idx = j / per;
    let f_idx = wide[((j % per) / nv) as usize];
    let v_idx = PTR32_VALUES[(j % nv) as usize];
    let (bytes, recipe) = sweep_image(seed, img_idx, f_idx, v_idx, true);
    let run_seed = mix(mix(seed, prop_id("C08") ^ 0x3232), j);
    let mut io = Rng::sub(run_seed, 3);
    let model = Model::of(&bytes);
    let mut ops = workload::full_query_set(&bytes, &model, false);
    ops.truncate(96);
    let len = bytes.len() as u64;
    Scenario {
        prop: prop.to_string(),
        seed,
        run: j,
        tier: "ptr32".to_string(),
        spec: Spec::Any,
        durable_len: bytes.len(),
        image: bytes,
        suffix: Vec::new(),
        ops,
        reader: ReaderCfg {
            run_seed,
            profile: if j % 3 == 0 {
                Profile { short_p: 96, short_max: 64, eintr_p: 8 }
            } else {
                Profile { short_p: 0, short_max: 1, eintr_p: 0 }
            },
            init_pos: io.below(len + 6),
            overrides: Vec::new(),
            heal_at_epilogue: false,
            clean_after_failure: false,
        },
        epilogue: false,
        recipe,
        mode: "ptr32-field-sweep".into(),
    }
}
