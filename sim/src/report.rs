//! Accumulator for what a batch of runs covered; merged commutatively by the supervisor.

use crate::json::J;
use std::collections::BTreeMap;

#[derive(Clone, Debug)]
pub struct Report {
    /// executions of the code under test (one scenario executed once = 1)
    pub evaluations: u64,
    /// run indices completed
    pub runs: u64,
    /// signatures of non-trivial cases (deduplicated by the supervisor)
    pub sigs: Vec<u64>,
    pub counters: BTreeMap<String, u64>,
    pub maxima: BTreeMap<String, u64>,
    pub samples: Vec<J>,
    pub notes: Vec<J>,
    /// op kind (ops::Op::kind_id) x outcome tag (exec::Tag) counts of stream-side calls
    pub op_grid: [[u64; 5]; 17],
}

impl Default for Report {
    fn default() -> Report {
        Report {
            evaluations: 0,
            runs: 0,
            sigs: Vec::new(),
            counters: BTreeMap::new(),
            maxima: BTreeMap::new(),
            samples: Vec::new(),
            notes: Vec::new(),
            op_grid: [[0; 5]; 17],
        }
    }
}

impl Report {
    pub fn add(&mut self, k: &str, n: u64) {
        if n == 0 {
            return;
        }
        *self.counters.entry(k.to_string()).or_insert(0) += n;
    }
    pub fn max(&mut self, k: &str, v: u64) {
        let e = self.maxima.entry(k.to_string()).or_insert(0);
        if v > *e {
            *e = v;
        }
    }
    pub fn sample(&mut self, j: J) {
        if self.samples.len() < 3 {
            self.samples.push(j);
        }
    }
    pub fn merge(&mut self, o: &Report) {
        self.evaluations += o.evaluations;
        self.runs += o.runs;
        self.sigs.extend_from_slice(&o.sigs);
        for (k, v) in o.counters.iter() {
            *self.counters.entry(k.clone()).or_insert(0) += *v;
        }
        for (k, v) in o.maxima.iter() {
            self.max(k, *v);
        }
        for i in 0..17 {
            for j in 0..5 {
                self.op_grid[i][j] += o.op_grid[i][j];
            }
        }
        for s in o.samples.iter() {
            self.sample(s.clone());
        }
        for n in o.notes.iter() {
            if self.notes.len() < 50 {
                self.notes.push(n.clone());
            }
        }
    }
    /// Serialise without the signatures (those travel in a binary side file).
    pub fn to_json(&self) -> J {
        let mut c = J::obj();
        for (k, v) in self.counters.iter() {
            c.set(k, J::u(*v));
        }
        let mut m = J::obj();
        for (k, v) in self.maxima.iter() {
            m.set(k, J::u(*v));
        }
        J::obj()
            .with("evaluations", J::u(self.evaluations))
            .with("runs", J::u(self.runs))
            .with("counters", c)
            .with("maxima", m)
            .with("samples", J::Arr(self.samples.clone()))
            .with("notes", J::Arr(self.notes.clone()))
            .with(
                "op_grid",
                J::Arr(
                    self.op_grid
                        .iter()
                        .map(|r| J::Arr(r.iter().map(|v| J::u(*v)).collect()))
                        .collect(),
                ),
            )
    }
    pub fn from_json(j: &J) -> Report {
        let mut r = Report {
            evaluations: j.gu("evaluations"),
            runs: j.gu("runs"),
            ..Default::default()
        };
        if let Some(kv) = j.get("counters").and_then(|c| c.as_obj()) {
            for (k, v) in kv {
                r.counters.insert(k.clone(), v.as_u64().unwrap_or(0));
            }
        }
        if let Some(kv) = j.get("maxima").and_then(|c| c.as_obj()) {
            for (k, v) in kv {
                r.maxima.insert(k.clone(), v.as_u64().unwrap_or(0));
            }
        }
        if let Some(a) = j.get("samples").and_then(|c| c.as_arr()) {
            r.samples = a.clone();
        }
        if let Some(a) = j.get("notes").and_then(|c| c.as_arr()) {
            r.notes = a.clone();
        }
        if let Some(a) = j.get("op_grid").and_then(|c| c.as_arr()) {
            for (i, row) in a.iter().enumerate().take(17) {
                if let Some(row) = row.as_arr() {
                    for (k, v) in row.iter().enumerate().take(5) {
                        r.op_grid[i][k] = v.as_u64().unwrap_or(0);
                    }
                }
            }
        }
        r
    }
}

#[cfg(feature = "stream")]
pub fn add_fault_counters(rep: &mut Report, c: &crate::reader::FaultCounters) {
    rep.add("fault.fail_transient", c.fail_transient);
    rep.add("fault.fail_sticky", c.fail_sticky);
    rep.add("fault.eof_early_transient", c.eof_early_transient);
    rep.add("fault.eof_early_sticky", c.eof_early_sticky);
    rep.add("fault.partial_then_fail", c.partial_then_fail);
    rep.add("fault.pending_fail_delivered", c.pending_fail);
    rep.add("fault.sticky_repeat_delivered", c.sticky_repeat);
    rep.add("fault.seek_fail", c.seek_fail);
    rep.add("legal.short_reads_fired", c.short_reads);
    rep.add("legal.eintr_fired", c.eintr);
    rep.add("io.reads", c.reads);
    rep.add("io.seeks", c.seeks);
}
