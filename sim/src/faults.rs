//! C17 — stream I/O failures surface as errors and never corrupt later answers.
//!
//! Per sampled workload: fault-free baseline, then exhaustive single-fault placement at
//! every I/O call of the baseline (all applicable fault kinds, transient and sticky), each
//! followed by an epilogue that re-issues every op; plus seeded multi-fault schedules
//! (and, thorough, exhaustive fault pairs on small workloads).

use crate::equiv::{prop_id, succeeded, Violation};
use crate::exec::Tag;
use crate::gen::{self, Bias, Samples};
use crate::hdr::Model;
use crate::json::J;
use crate::ops::Op;
use crate::reader::{Fault, Override, Profile, ReaderCfg, KINDS};
use crate::report::{add_fault_counters, Report};
use crate::rng::{fnv1a, mix, Rng, FNV_INIT};
use crate::scen::*;
use crate::with_spec;
use crate::workload;
use std::io::ErrorKind;

fn run_one<E: elf::endian::EndianParse>(sc: &Scenario) -> StreamRun {
    let bytes = sc.visible();
    let model = Model::of(&bytes);
    let caps = caps_for(&bytes, &model);
    run_stream::<E>(sc, caps)
}

pub fn execute(sc: &Scenario) -> StreamRun {
    with_spec!(sc.spec, run_one(sc))
}

/// The fault-free twin of a scenario: same image, ops, cursor; full reads; no epilogue.
pub fn baseline_of(sc: &Scenario) -> Scenario {
    let mut b = sc.clone();
    b.reader.overrides.clear();
    b.reader.profile = Profile::FULL;
    b.reader.heal_at_epilogue = false;
    b
}

/// Gate: is the fault-free run of this workload self-consistent and equal to the
/// reference model? If the answers of the fault-free stream already depend on the call
/// history or differ from the slice parser, "the answer it would have returned on a
/// fault-free stream" is not well defined for this workload on this tree — that is C07's
/// subject, and C17 records the workload as inconclusive instead of raising an alarm.
pub fn gate_ok(base_sc: &Scenario, base: &StreamRun) -> bool {
    fn slice_of<E: elf::endian::EndianParse>(sc: &Scenario) -> (Vec<OpOut>, Model) {
        let bytes = sc.visible();
        let model = Model::of(&bytes);
        let caps = caps_for(&bytes, &model);
        (run_slice::<E>(&bytes, &sc.ops, caps), model)
    }
    // epilogue answers equal the main answers
    for st in base.steps.iter().filter(|s| s.epilogue) {
        match base.steps.get(st.op_index) {
            Some(m) if m.op_index == st.op_index && !m.epilogue => {
                if m.out != st.out {
                    return false;
                }
            }
            _ => return false,
        }
    }
    let (slice, model) = with_spec!(base_sc.spec, slice_of(base_sc));
    let er = crate::equiv::EquivRun {
        stream: base.clone(),
        slice,
        model,
    };
    let mut f = crate::equiv::RunFacts::default();
    if crate::equiv::check_c07(base_sc, &er, &mut f).is_some() {
        return false;
    }
    // history independence: every answer of the fault-free history equals the answer the
    // same query gets on a fresh stream that is asked nothing else
    if succeeded(er.stream.steps[0].out.tag) {
        let mut seen: Vec<&Op> = Vec::new();
        for st in er.stream.steps.iter().skip(1).filter(|s| !s.epilogue) {
            let rec = &base_sc.ops[st.op_index - 1];
            if seen.contains(&&rec.op) {
                continue;
            }
            seen.push(&rec.op);
            let mut one = base_sc.clone();
            one.epilogue = false;
            one.ops = vec![rec.clone()];
            let r1 = execute(&one);
            match r1.steps.get(1) {
                Some(s1) if s1.out == st.out => {}
                _ => return false,
            }
        }
    }
    true
}

/// Same reader profile, no faults (to recognise a tree whose answers depend on the legal
/// behaviour of the reader — that is C07's subject, not C17's).
pub fn profile_twin_of(sc: &Scenario) -> Scenario {
    let mut b = sc.clone();
    b.reader.overrides.clear();
    b.reader.heal_at_epilogue = false;
    b
}

pub fn build_workload(seed: u64, run: u64, tier: &str, samples: &Samples) -> Scenario {
    let thorough = tier == "thorough";
    let run_seed = mix(mix(seed, prop_id("C17")), run);
    let mut g = Rng::sub(run_seed, 1);
    let mut o = Rng::sub(run_seed, 2);
    let mut io = Rng::sub(run_seed, 3);
    // keep drawing until the image opens often enough: faults need in-flight state
    let img = gen::draw_image(&mut g, samples, Bias::Faults, thorough);
    let model = Model::of(&img.bytes);
    let spec = if o.chance(1, 12) {
        workload::draw_spec(&mut o, &img.bytes)
    } else if o.chance(1, 2) {
        Spec::Any
    } else if img.bytes.get(5).copied() == Some(2) {
        Spec::Be
    } else {
        Spec::Le
    };
    let ops = workload::gen_ops(
        &mut o,
        &img.bytes,
        &model,
        if thorough { 20 } else { 12 },
        if thorough { 20 } else { 8 },
    );
    let len = img.bytes.len() as u64;
    let mut recipe = img.recipe.clone();
    recipe.set("class_sig", J::u(img.class_sig));
    Scenario {
        prop: "C17".into(),
        seed,
        run,
        tier: tier.to_string(),
        spec,
        durable_len: img.bytes.len(),
        image: img.bytes,
        suffix: Vec::new(),
        ops,
        reader: ReaderCfg {
            run_seed,
            profile: Profile::FULL,
            init_pos: io.below(len + 6),
            overrides: Vec::new(),
            heal_at_epilogue: false,
            clean_after_failure: false,
        },
        epilogue: true,
        recipe,
        mode: "single-fault".into(),
    }
}

/// Generated exhaustive workloads come first; the last indices of the exhaustive range are
/// the real sample objects (raw and re-laid-out), each with a realistic query set.
pub fn generated_exhaustive(tier: &str) -> u64 {
    let scale = std::env::var("ELFSIM_SCALE")
        .ok()
        .and_then(|s| s.parse::<f64>().ok())
        .unwrap_or(1.0);
    ((if tier == "thorough" { 100_000.0 } else { 4_000.0 }) * scale).ceil() as u64
}

pub fn sample_workloads(samples: &Samples) -> u64 {
    (samples.raw.len() + samples.relaid.len()) as u64
}

pub fn sample_workload_index(run: u64, tier: &str, samples: &Samples) -> Option<usize> {
    let g = generated_exhaustive(tier);
    if run >= g && run < g + sample_workloads(samples) {
        Some((run - g) as usize)
    } else {
        None
    }
}

pub fn build_sample_workload(seed: u64, run: u64, tier: &str, samples: &Samples, i: usize) -> Scenario {
    let (name, bytes, relaid) = if i < samples.raw.len() {
        (samples.raw[i].0.clone(), samples.raw[i].1.clone(), false)
    } else {
        let j = i - samples.raw.len();
        (samples.relaid[j].0.clone(), samples.relaid[j].1.clone(), true)
    };
    let model = Model::of(&bytes);
    // the globals, name lookups, every section's data, typed views where the type fits,
    // every PT_NOTE segment; then the multi-range accessors once more
    let mut ops: Vec<Op> = vec![
        Op::ShdrsWithStrtab,
        Op::SymbolTable,
        Op::DynSymTable,
        Op::Dynamic,
        Op::SymVer,
        Op::ByName(".dynsym".into()),
        Op::ByName(".absent".into()),
    ];
    for s in model.shdrs.iter().take(40) {
        ops.push(Op::SectionData(*s));
        match s.typ {
            crate::hdr::SHT_STRTAB => ops.push(Op::AsStrtab(*s)),
            crate::hdr::SHT_NOTE => ops.push(Op::AsNotes(*s)),
            crate::hdr::SHT_REL => ops.push(Op::AsRels(*s)),
            crate::hdr::SHT_RELA => ops.push(Op::AsRelas(*s)),
            _ => {}
        }
    }
    for p in model.phdrs.iter().filter(|p| p.typ == crate::hdr::PT_NOTE) {
        ops.push(Op::SegNotes(*p));
    }
    ops.push(Op::SymVer);
    ops.push(Op::SymbolTable);
    ops.push(Op::DynSymTable);
    let run_seed = mix(mix(seed, prop_id("C17") ^ 0x5a3e), run);
    let len = bytes.len() as u64;
    Scenario {
        prop: "C17".into(),
        seed,
        run,
        tier: tier.to_string(),
        spec: Spec::Any,
        durable_len: bytes.len(),
        recipe: J::obj()
            .with("source", J::s(if relaid { "sample-relaid-headers-first" } else { "sample" }))
            .with("name", J::Str(name))
            .with("len", J::u(len))
            .with("class_sig", J::u(0x6000_0000_0000 | i as u64)),
        image: bytes,
        suffix: Vec::new(),
        ops: ops
            .into_iter()
            .enumerate()
            .map(|(k, op)| crate::ops::OpRec {
                id: (k + 1) as u32,
                op,
            })
            .collect(),
        reader: ReaderCfg {
            run_seed,
            profile: Profile::FULL,
            init_pos: run % (len + 6),
            overrides: Vec::new(),
            heal_at_epilogue: false,
            clean_after_failure: false,
        },
        epilogue: true,
        mode: "single-fault/sample".into(),
    }
}

/// C17 oracle: judge a faulted run against the baseline run of the same workload.
pub fn check_c17(sc: &Scenario, base: &StreamRun, run: &StreamRun) -> Option<Violation> {
    let first = check_c17_with(sc, run, &|st: &StepRec| match base.steps.get(st.op_index) {
        Some(b) if b.op_index == st.op_index => Some(b.out.clone()),
        _ => None,
    })?;
    if first.clause != "residue" && first.clause != "pre-fault-divergence" {
        return Some(first);
    }
    // A PartialThenFail placement starts with a legal short read. If the same difference
    // shows with the short read alone (no failure anywhere), the tree mishandles short
    // reads — C07's subject — and the difference is not a residue of a failure.
    if sc
        .reader
        .overrides
        .iter()
        .any(|o| matches!(o.fault, Fault::PartialThenFail { .. }))
    {
        let mut legal = sc.clone();
        for o in legal.reader.overrides.iter_mut() {
            if let Fault::PartialThenFail { k, .. } = o.fault {
                o.fault = Fault::Short { k };
            }
        }
        let only_legal = legal
            .reader
            .overrides
            .iter()
            .all(|o| matches!(o.fault, Fault::Short { .. }));
        if !only_legal && first.clause == "pre-fault-divergence" {
            // nothing has failed yet at the point of divergence: the other placements
            // cannot have mattered
            legal
                .reader
                .overrides
                .retain(|o| matches!(o.fault, Fault::Short { .. }));
        }
        if only_legal || first.clause == "pre-fault-divergence" {
            let lr = execute(&legal);
            let differs = lr.steps.iter().any(|st| match base.steps.get(st.op_index) {
                Some(b) if b.op_index == st.op_index => st.out != b.out,
                _ => false,
            });
            if differs {
                return None;
            }
        }
    }
    // Second opinion. "The answer it would have returned on a fault-free stream" is taken
    // for the history the stream actually went through: the same calls minus the ones a
    // failure made fail. On a tree whose fault-free answers depend on the call history
    // (C07's subject) only this reference is meaningful; on a history-independent tree it
    // equals the baseline. If the faulted run agrees with it, the difference is not a
    // residue of the failure.
    let survivors: Vec<&StepRec> = run
        .steps
        .iter()
        .skip(1)
        .filter(|s| !(s.failure_in_op || (s.failure_before && s.out.tag == Tag::Err)))
        .collect();
    if !succeeded(run.steps[0].out.tag) {
        return Some(first);
    }
    let mut surv = baseline_of(sc);
    surv.epilogue = false;
    surv.ops = survivors
        .iter()
        .enumerate()
        .map(|(i, s)| crate::ops::OpRec {
            id: (i + 1) as u32,
            op: sc.ops[s.op_index - 1].op.clone(),
        })
        .collect();
    let reference = execute(&surv);
    let lookup = |st: &StepRec| -> Option<crate::scen::OpOut> {
        if st.op_index == 0 {
            return reference.steps.first().map(|s| s.out.clone());
        }
        let pos = survivors.iter().position(|s| s.id == st.id)?;
        reference.steps.get(pos + 1).map(|s| s.out.clone())
    };
    match check_c17_with(sc, run, &lookup) {
        Some(v2) => Some(v2),
        None => None,
    }
}

/// True when `check_c17` dismissed a residue-class difference by the second opinion
/// (bookkeeping for the evidence).
pub fn dismissed_as_history_dependent(sc: &Scenario, base: &StreamRun, run: &StreamRun) -> bool {
    let first = check_c17_with(sc, run, &|st: &StepRec| match base.steps.get(st.op_index) {
        Some(b) if b.op_index == st.op_index => Some(b.out.clone()),
        _ => None,
    });
    first.is_some() && check_c17(sc, base, run).is_none()
}

fn check_c17_with(
    sc: &Scenario,
    run: &StreamRun,
    reference: &dyn Fn(&StepRec) -> Option<crate::scen::OpOut>,
) -> Option<Violation> {
    let v = |clause: &str, op: &str, id: u32, detail: String| {
        Some(Violation {
            prop: "C17".into(),
            clause: clause.into(),
            op: op.into(),
            at_op_id: id,
            detail,
        })
    };
    for st in run.steps.iter() {
        let op_name = if st.op_index == 0 {
            "open"
        } else {
            sc.ops[st.op_index - 1].op.name()
        };
        let b_owned = reference(st);
        // (a) no panic where the baseline did not panic
        let ref_panicked = b_owned.as_ref().map(|b| b.tag.is_panic()).unwrap_or(false);
        if st.out.tag.is_panic() && !ref_panicked {
            return v(
                "panic",
                op_name,
                st.id,
                format!(
                    "{} under faults; the fault-free run of the same op gave {}",
                    st.out.tag.name(),
                    b_owned.as_ref().map(|b| b.tag.name()).unwrap_or("no answer")
                ),
            );
        }
        if st.out.tag == Tag::StepCap {
            return v(
                "spin-on-error",
                op_name,
                st.id,
                format!(
                    "the call made more than {} I/O calls without returning",
                    crate::reader::STEP_CAP_PER_OP
                ),
            );
        }
        if st.out.tag.is_panic() && ref_panicked {
            // the same panic with and without faults: another property's business (§3.9)
            continue;
        }
        if st.failure_in_op
            && st.only_interrupted_seek
            && b_owned.as_ref().map(|b| *b == st.out).unwrap_or(false)
        {
            // A transient `Interrupted` from seek that the code retried, with exactly the
            // fault-free answer: by the convention the harness itself applies to reads
            // (Interrupted means "try again") this is not a swallowed failure. Carrying on
            // *without* retrying the seek gives a different answer and is still reported.
            continue;
        }
        if st.failure_in_op {
            // (b) a delivered failure must surface as an error
            if st.out.tag != Tag::Err {
                return v(
                    "fault-swallowed",
                    op_name,
                    st.id,
                    format!(
                        "an I/O failure was delivered during the call but it returned {}",
                        st.out.tag.name()
                    ),
                );
            }
        } else if b_owned.is_none() {
            continue;
        } else if !st.failure_before {
            let b = b_owned.as_ref().unwrap();
            // (c) before any failure: exactly the baseline answer
            if st.out != *b {
                return v(
                    "pre-fault-divergence",
                    op_name,
                    st.id,
                    format!(
                        "no failure delivered yet, but answer {} differs from fault-free answer {}",
                        st.out.tag.name(),
                        b.tag.name()
                    ),
                );
            }
        } else {
            let b = b_owned.as_ref().unwrap();
            // (c) after a failure: fails again, or exactly the fault-free answer
            if st.out.tag != Tag::Err && st.out != *b {
                return v(
                    "residue",
                    op_name,
                    st.id,
                    format!(
                        "after an earlier I/O failure this {}query returned {} with content different from the fault-free answer ({})",
                        if st.epilogue { "re-issued " } else { "" },
                        st.out.tag.name(),
                        b.tag.name()
                    ),
                );
            }
        }
    }
    None
}

fn variants_for(kind: u8, rng: &mut Rng) -> Vec<(Fault, bool)> {
    // (fault, heal_at_epilogue)
    let k2 = *rng.pick(&[
        ErrorKind::TimedOut,
        ErrorKind::WouldBlock,
        ErrorKind::PermissionDenied,
        ErrorKind::BrokenPipe,
        ErrorKind::Unsupported,
        ErrorKind::InvalidInput,
        ErrorKind::NotSeekable,
    ]);
    let other = ErrorKind::Other;
    if kind == 0 {
        vec![
            (Fault::Fail { kind: other, sticky: false }, false),
            (Fault::Fail { kind: other, sticky: true }, false),
            (Fault::Fail { kind: other, sticky: true }, true),
            (Fault::Fail { kind: ErrorKind::UnexpectedEof, sticky: false }, false),
            (Fault::Fail { kind: k2, sticky: false }, false),
            (Fault::Fail { kind: k2, sticky: true }, false),
            (Fault::EofEarly { sticky: false }, false),
            (Fault::EofEarly { sticky: true }, false),
            (Fault::EofEarly { sticky: true }, true),
            (
                Fault::PartialThenFail {
                    k: rng.range(1, 8) as u32,
                    kind: other,
                },
                false,
            ),
        ]
    } else {
        let k3 = *rng.pick(&KINDS);
        vec![
            (Fault::Fail { kind: other, sticky: false }, false),
            (Fault::Fail { kind: other, sticky: true }, false),
            (Fault::Fail { kind: other, sticky: true }, true),
            (Fault::Fail { kind: k3, sticky: false }, false),
        ]
    }
}

pub struct C17Outcome {
    pub violation: Option<(Scenario, Violation)>,
}

fn is_multi_range(op: &Op) -> bool {
    matches!(op, Op::SymbolTable | Op::DynSymTable | Op::SymVer)
}

fn note_facts(sc: &Scenario, base: &StreamRun, run: &StreamRun, rep: &mut Report) {
    add_fault_counters(rep, &run.counters);
    rep.add("sim_time_io_events", run.total_events);
    let delivered = run.steps.iter().any(|s| s.failure_in_op);
    let base_ok = base.opened
        && base
            .steps
            .iter()
            .skip(1)
            .any(|s| s.out.tag == Tag::Ok && s.out.obs.len() > 2);
    for st in run.steps.iter() {
        let kind = if st.op_index == 0 {
            0
        } else {
            sc.ops[st.op_index - 1].op.kind_id() as usize
        };
        rep.op_grid[kind % 17][st.out.tag as usize % 5] += 1;
        if st.failure_in_op && st.op_index > 0 {
            let op = &sc.ops[st.op_index - 1].op;
            if is_multi_range(op) && st.io_events > 2 {
                rep.add("probe.multi_range_op_fault_after_first_load", 1);
            }
        }
        if st.failure_before && !st.failure_in_op && st.out.tag == Tag::Ok && st.op_index > 0 {
            rep.add("probe.requery_after_fault_ok", 1);
        }
        if st.failure_before && !st.failure_in_op && st.out.tag == Tag::Err {
            rep.add("probe.requery_after_fault_err", 1);
        }
    }
    if delivered {
        rep.add("runs_with_delivered_fault", 1);
    }
    if delivered && base_ok {
        let mut sig = FNV_INIT;
        sig = fnv1a(sig, &sc.recipe.gu("class_sig").to_le_bytes());
        sig = fnv1a(sig, &[sc.spec as u8, sc.reader.heal_at_epilogue as u8]);
        for o in sc.reader.overrides.iter() {
            let kind = sc
                .ops
                .iter()
                .find(|x| x.id == o.op_id)
                .map(|x| x.op.kind_id())
                .unwrap_or(0);
            sig = fnv1a(sig, &[kind, o.call.min(255) as u8]);
            sig = fnv1a(sig, o.fault.name().as_bytes());
        }
        for st in run.steps.iter() {
            let kind = if st.op_index == 0 {
                0
            } else {
                sc.ops[st.op_index - 1].op.kind_id()
            };
            sig = fnv1a(
                sig,
                &[kind, st.out.tag as u8, st.failure_in_op as u8, st.epilogue as u8],
            );
        }
        rep.sigs.push(sig);
    }
}

fn sample_json(sc: &Scenario, run: &StreamRun) -> J {
    J::obj()
        .with("image", sc.recipe.clone())
        .with("endian_spec", J::s(sc.spec.name()))
        .with("mode", J::s(&sc.mode))
        .with(
            "ops",
            J::Arr(sc.ops.iter().map(|o| J::s(o.op.name())).collect()),
        )
        .with("reader", sc.reader.to_json())
        .with(
            "outcomes",
            J::Arr(
                run.steps
                    .iter()
                    .map(|s| {
                        J::Str(format!(
                            "{}{}:{}{}",
                            if s.epilogue { "epi-" } else { "" },
                            s.id % EPILOGUE_ID_BASE,
                            s.out.tag.name(),
                            if s.failure_in_op { "(fault delivered)" } else { "" }
                        ))
                    })
                    .collect(),
            ),
        )
        .with(
            "first_events",
            J::Arr(
                run.events
                    .iter()
                    .take(12)
                    .map(crate::reader::event_json)
                    .collect(),
            ),
        )
}

/// Exhaustive single-fault enumeration (and optionally pairs) over one workload.
pub fn run_exhaustive(
    seed: u64,
    run: u64,
    tier: &str,
    samples: &Samples,
    pairs: bool,
    rep: &mut Report,
) -> C17Outcome {
    let wl = match sample_workload_index(run, tier, samples) {
        Some(i) => build_sample_workload(seed, run, tier, samples, i),
        None => build_workload(seed, run, tier, samples),
    };
    let base_sc = baseline_of(&wl);
    let base = execute(&base_sc);
    rep.evaluations += 1;
    rep.add("workloads", 1);
    if wl.mode == "single-fault/sample" {
        rep.add("sample_object_workloads", 1);
        rep.add("sample_object_baseline_io_events", base.events.len() as u64);
        if std::env::var("ELFSIM_DEBUG").is_ok() {
            eprintln!("sample wl run={} ops={} events={} opened={} gate={}", run, wl.ops.len(), base.events.len(), base.opened, gate_ok(&base_sc, &base));
        }
    }
    if base.opened {
        rep.add("workloads_opened", 1);
    }
    if !gate_ok(&base_sc, &base) {
        rep.add("inconclusive_fault_free_run_not_equivalent", 1);
        rep.notes.push(
            J::obj()
                .with("kind", J::s("inconclusive_fault_free_run_not_equivalent"))
                .with("run", J::u(run))
                .with("seed", J::u(seed)),
        );
        return C17Outcome { violation: None };
    }
    let mut vr = Rng::sub(wl.reader.run_seed, 4);
    // One generated workload in four is enumerated under a *legally misbehaving* reader:
    // the fault placements are then the I/O calls of that reader's fault-free run (several
    // per range), so every single fault is also met in the middle of a chopped-up transfer.
    let mut wl = wl;
    let mut enum_events = base.events.clone();
    if wl.mode == "single-fault" && run % 8 < 2 {
        let profile = if run % 8 == 0 {
            Profile { short_p: 128, short_max: 24, eintr_p: 0 }
        } else {
            Profile { short_p: 64, short_max: 9, eintr_p: 40 }
        };
        let mut twin_sc = profile_twin_of(&wl);
        twin_sc.reader.profile = profile;
        let twin = execute(&twin_sc);
        rep.evaluations += 1;
        let same = twin.steps.len() == base.steps.len()
            && twin.steps.iter().zip(base.steps.iter()).all(|(a, b)| a.out == b.out);
        if !same {
            rep.add("inconclusive_profile_sensitive", 1);
            return C17Outcome { violation: None };
        }
        if twin.events.len() <= 400 && twin.total_events as usize == twin.events.len() {
            wl.reader.profile = profile;
            wl.reader.clean_after_failure = true;
            wl.mode = "single-fault/chopped".into();
            enum_events = twin.events.clone();
            rep.add("workloads_enumerated_under_short_reads", 1);
        }
    }
    let n = enum_events.len();
    rep.add("baseline_io_events", n as u64);
    let mut first_sample = true;
    for ev in enum_events.iter() {
        crate::sup::heartbeat(run);
        for (fault, heal) in variants_for(ev.kind, &mut vr) {
            let mut sc = wl.clone();
            sc.reader.overrides = vec![Override {
                op_id: ev.op_id,
                call: ev.call,
                fault,
            }];
            sc.reader.heal_at_epilogue = heal;
            let r = execute(&sc);
            rep.evaluations += 1;
            note_facts(&sc, &base, &r, rep);
            if first_sample && r.opened {
                rep.sample(sample_json(&sc, &r));
                first_sample = false;
            }
            if let Some(v) = check_c17(&sc, &base, &r) {
                return C17Outcome {
                    violation: Some((sc, v)),
                };
            }
        }
    }
    rep.add("single_fault_placements_exhausted", 1);
    if pairs && wl.mode != "single-fault/chopped" && n <= 40 && n >= 2 {
        for i in 0..n {
            crate::sup::heartbeat(run);
            for j in (i + 1)..n {
                let (a, b) = (base.events[i], base.events[j]);
                let second: Vec<Fault> = if b.kind == 0 {
                    vec![
                        Fault::Fail { kind: ErrorKind::Other, sticky: false },
                        Fault::EofEarly { sticky: false },
                        Fault::PartialThenFail { k: 1 + (j as u32 % 5), kind: ErrorKind::Other },
                    ]
                } else {
                    vec![Fault::Fail { kind: ErrorKind::Other, sticky: false }]
                };
                for f2 in second {
                    let mut sc = wl.clone();
                    sc.mode = "fault-pair".into();
                    sc.reader.overrides = vec![
                        Override {
                            op_id: a.op_id,
                            call: a.call,
                            fault: Fault::Fail { kind: ErrorKind::Other, sticky: false },
                        },
                        Override {
                            op_id: b.op_id,
                            call: b.call,
                            fault: f2,
                        },
                    ];
                    let r = execute(&sc);
                    rep.evaluations += 1;
                    rep.add("pair_runs", 1);
                    note_facts(&sc, &base, &r, rep);
                    if let Some(v) = check_c17(&sc, &base, &r) {
                        return C17Outcome {
                            violation: Some((sc, v)),
                        };
                    }
                }
            }
        }
        rep.add("fault_pairs_exhausted", 1);
    }
    C17Outcome { violation: None }
}

/// One seeded multi-fault schedule with a seeded reader profile.
pub fn run_multi(seed: u64, run: u64, tier: &str, samples: &Samples, rep: &mut Report) -> C17Outcome {
    let mut wl = build_workload(seed, run, tier, samples);
    wl.mode = "multi-fault".into();
    let base_sc = baseline_of(&wl);
    let base = execute(&base_sc);
    rep.evaluations += 1;
    if !gate_ok(&base_sc, &base) {
        rep.add("inconclusive_fault_free_run_not_equivalent", 1);
        return C17Outcome { violation: None };
    }
    let mut fr = Rng::sub(wl.reader.run_seed, 5);
    let profile = if fr.chance(1, 3) {
        Profile::FULL
    } else {
        workload::draw_profile(&mut fr)
    };
    wl.reader.profile = profile;
    if !profile.is_full() {
        // is this tree sensitive to the legal behaviour alone? then it is not C17's call
        let twin = execute(&profile_twin_of(&wl));
        rep.evaluations += 1;
        let same = twin.steps.len() == base.steps.len()
            && twin
                .steps
                .iter()
                .zip(base.steps.iter())
                .all(|(a, b)| a.out == b.out);
        if !same {
            rep.add("inconclusive_profile_sensitive", 1);
            rep.notes.push(
                J::obj()
                    .with("kind", J::s("inconclusive_profile_sensitive"))
                    .with("run", J::u(run))
                    .with("seed", J::u(seed)),
            );
            return C17Outcome { violation: None };
        }
    }
    // per-op call counts in the baseline
    let mut calls: Vec<(u32, u32, bool)> = Vec::new(); // (op_id, calls, multi_range)
    for st in base.steps.iter() {
        let multi = st.op_index > 0 && is_multi_range(&wl.ops[st.op_index - 1].op);
        calls.push((st.id, st.io_events, multi));
    }
    let nf = fr.urange(1, 3);
    let mult: u32 = if profile.is_full() { 1 } else { 4 };
    let mut ovs: Vec<Override> = Vec::new();
    let mut last_op_pos: Option<usize> = None;
    for _ in 0..nf {
        if calls.is_empty() {
            break;
        }
        // placement bias: multi-range ops (2nd+ range), and the op right after a faulted one
        let with_io: Vec<usize> = (0..calls.len()).filter(|i| calls[*i].1 > 0).collect();
        if with_io.is_empty() {
            break;
        }
        let multis: Vec<usize> = with_io.iter().copied().filter(|i| calls[*i].2).collect();
        let pos = if let (Some(lp), true) = (last_op_pos, fr.chance(1, 3)) {
            (lp + 1).min(calls.len() - 1)
        } else if !multis.is_empty() && fr.chance(1, 2) {
            *fr.pick(&multis)
        } else {
            *fr.pick(&with_io)
        };
        last_op_pos = Some(pos);
        let (op_id, n_calls, multi) = calls[pos];
        let span = (n_calls.max(1) * mult).min(64);
        let call = if multi && n_calls > 2 && fr.chance(2, 3) {
            2 + fr.below((span - 2).max(1) as u64) as u32
        } else {
            fr.below(span as u64) as u32
        };
        let fault = match fr.below(6) {
            0 => Fault::Fail { kind: *fr.pick(&KINDS[..crate::reader::READ_KINDS]), sticky: false },
            1 => Fault::Fail { kind: *fr.pick(&KINDS[..crate::reader::READ_KINDS]), sticky: fr.chance(1, 2) },
            2 => Fault::EofEarly { sticky: fr.chance(1, 4) },
            3 => Fault::PartialThenFail {
                k: fr.range(1, 16) as u32,
                kind: *fr.pick(&KINDS[..crate::reader::READ_KINDS]),
            },
            4 => Fault::Fail { kind: ErrorKind::UnexpectedEof, sticky: false },
            _ => Fault::EofEarly { sticky: false },
        };
        // the epilogue can be targeted too
        let op_id = if fr.chance(1, 8) && op_id != 0 && op_id < EPILOGUE_ID_BASE {
            EPILOGUE_ID_BASE + op_id
        } else {
            op_id
        };
        ovs.push(Override { op_id, call, fault });
    }
    wl.reader.overrides = ovs;
    wl.reader.heal_at_epilogue = fr.chance(1, 2);
    wl.reader.clean_after_failure = true;
    let r = execute(&wl);
    rep.evaluations += 1;
    note_facts(&wl, &base, &r, rep);
    if run % 997 == 0 {
        rep.sample(sample_json(&wl, &r));
    }
    if let Some(v) = check_c17(&wl, &base, &r) {
        return C17Outcome {
            violation: Some((wl, v)),
        };
    }
    C17Outcome { violation: None }
}

/// Re-judge a (possibly minimised) scenario from scratch: baseline + faulted run + oracle.
pub fn judge(sc: &Scenario) -> Option<Violation> {
    let base_sc = baseline_of(sc);
    let base = execute(&base_sc);
    if !gate_ok(&base_sc, &base) {
        return None;
    }
    if !sc.reader.profile.is_full() {
        let twin = execute(&profile_twin_of(sc));
        let same = twin.steps.len() == base.steps.len()
            && twin
                .steps
                .iter()
                .zip(base.steps.iter())
                .all(|(a, b)| a.out == b.out);
        if !same {
            return None;
        }
    }
    let r = execute(sc);
    check_c17(sc, &base, &r)
}

#[allow(dead_code)]
fn _unused(_: &dyn Fn(Tag) -> bool) {
    let _ = succeeded;
}
