//! The client's alphabet: every public query of `ElfStream` and its `ElfBytes` twin.

use crate::hdr::{Phdr, Shdr};
use crate::json::J;

#[derive(Clone, Debug, PartialEq, Eq, Hash)]
pub enum Op {
    Open,
    Segments,
    SectionHeaders,
    ShdrsWithStrtab,
    ByName(String),
    SectionData(Shdr),
    AsStrtab(Shdr),
    AsRels(Shdr),
    AsRelas(Shdr),
    AsNotes(Shdr),
    SymbolTable,
    DynSymTable,
    Dynamic,
    SymVer,
    SegNotes(Phdr),
    // slice-only (no stream twin)
    SegmentData(Phdr),
    FindCommon,
}

impl Op {
    pub fn kind_id(&self) -> u8 {
        match self {
            Op::Open => 0,
            Op::Segments => 1,
            Op::SectionHeaders => 2,
            Op::ShdrsWithStrtab => 3,
            Op::ByName(_) => 4,
            Op::SectionData(_) => 5,
            Op::AsStrtab(_) => 6,
            Op::AsRels(_) => 7,
            Op::AsRelas(_) => 8,
            Op::AsNotes(_) => 9,
            Op::SymbolTable => 10,
            Op::DynSymTable => 11,
            Op::Dynamic => 12,
            Op::SymVer => 13,
            Op::SegNotes(_) => 14,
            Op::SegmentData(_) => 15,
            Op::FindCommon => 16,
        }
    }
    pub fn name(&self) -> &'static str {
        match self {
            Op::Open => "open",
            Op::Segments => "segments",
            Op::SectionHeaders => "section_headers",
            Op::ShdrsWithStrtab => "section_headers_with_strtab",
            Op::ByName(_) => "section_header_by_name",
            Op::SectionData(_) => "section_data",
            Op::AsStrtab(_) => "section_data_as_strtab",
            Op::AsRels(_) => "section_data_as_rels",
            Op::AsRelas(_) => "section_data_as_relas",
            Op::AsNotes(_) => "section_data_as_notes",
            Op::SymbolTable => "symbol_table",
            Op::DynSymTable => "dynamic_symbol_table",
            Op::Dynamic => "dynamic",
            Op::SymVer => "symbol_version_table",
            Op::SegNotes(_) => "segment_data_as_notes",
            Op::SegmentData(_) => "segment_data",
            Op::FindCommon => "find_common_data",
        }
    }
    pub fn slice_only(&self) -> bool {
        matches!(self, Op::SegmentData(_) | Op::FindCommon)
    }
    pub fn shdr_arg(&self) -> Option<&Shdr> {
        match self {
            Op::SectionData(s)
            | Op::AsStrtab(s)
            | Op::AsRels(s)
            | Op::AsRelas(s)
            | Op::AsNotes(s) => Some(s),
            _ => None,
        }
    }
    pub fn phdr_arg(&self) -> Option<&Phdr> {
        match self {
            Op::SegNotes(p) | Op::SegmentData(p) => Some(p),
            _ => None,
        }
    }

    pub fn to_json(&self) -> J {
        let mut j = J::obj().with("op", J::s(self.name()));
        if let Op::ByName(n) = self {
            j.set("name", J::s(n));
        }
        if let Some(s) = self.shdr_arg() {
            j.set("shdr", shdr_json(s));
        }
        if let Some(p) = self.phdr_arg() {
            j.set("phdr", phdr_json(p));
        }
        j
    }

    pub fn from_json(j: &J) -> Option<Op> {
        let sh = || j.get("shdr").map(shdr_from).unwrap_or_default();
        let ph = || j.get("phdr").map(phdr_from).unwrap_or_default();
        Some(match j.gs("op") {
            "open" => Op::Open,
            "segments" => Op::Segments,
            "section_headers" => Op::SectionHeaders,
            "section_headers_with_strtab" => Op::ShdrsWithStrtab,
            "section_header_by_name" => Op::ByName(j.gs("name").to_string()),
            "section_data" => Op::SectionData(sh()),
            "section_data_as_strtab" => Op::AsStrtab(sh()),
            "section_data_as_rels" => Op::AsRels(sh()),
            "section_data_as_relas" => Op::AsRelas(sh()),
            "section_data_as_notes" => Op::AsNotes(sh()),
            "symbol_table" => Op::SymbolTable,
            "dynamic_symbol_table" => Op::DynSymTable,
            "dynamic" => Op::Dynamic,
            "symbol_version_table" => Op::SymVer,
            "segment_data_as_notes" => Op::SegNotes(ph()),
            "segment_data" => Op::SegmentData(ph()),
            "find_common_data" => Op::FindCommon,
            _ => return None,
        })
    }
}

pub fn shdr_json(s: &Shdr) -> J {
    J::obj()
        .with("sh_name", J::u(s.name as u64))
        .with("sh_type", J::u(s.typ as u64))
        .with("sh_flags", J::u(s.flags))
        .with("sh_addr", J::u(s.addr))
        .with("sh_offset", J::u(s.offset))
        .with("sh_size", J::u(s.size))
        .with("sh_link", J::u(s.link as u64))
        .with("sh_info", J::u(s.info as u64))
        .with("sh_addralign", J::u(s.addralign))
        .with("sh_entsize", J::u(s.entsize))
}
pub fn shdr_from(j: &J) -> Shdr {
    Shdr {
        name: j.gu("sh_name") as u32,
        typ: j.gu("sh_type") as u32,
        flags: j.gu("sh_flags"),
        addr: j.gu("sh_addr"),
        offset: j.gu("sh_offset"),
        size: j.gu("sh_size"),
        link: j.gu("sh_link") as u32,
        info: j.gu("sh_info") as u32,
        addralign: j.gu("sh_addralign"),
        entsize: j.gu("sh_entsize"),
    }
}
pub fn phdr_json(p: &Phdr) -> J {
    J::obj()
        .with("p_type", J::u(p.typ as u64))
        .with("p_flags", J::u(p.flags as u64))
        .with("p_offset", J::u(p.offset))
        .with("p_vaddr", J::u(p.vaddr))
        .with("p_paddr", J::u(p.paddr))
        .with("p_filesz", J::u(p.filesz))
        .with("p_memsz", J::u(p.memsz))
        .with("p_align", J::u(p.align))
}
pub fn phdr_from(j: &J) -> Phdr {
    Phdr {
        typ: j.gu("p_type") as u32,
        flags: j.gu("p_flags") as u32,
        offset: j.gu("p_offset"),
        vaddr: j.gu("p_vaddr"),
        paddr: j.gu("p_paddr"),
        filesz: j.gu("p_filesz"),
        memsz: j.gu("p_memsz"),
        align: j.gu("p_align"),
    }
}

/// An op with a stable identity inside a scenario (the reader's decisions are keyed by it).
#[derive(Clone, Debug, PartialEq, Eq)]
pub struct OpRec {
    pub id: u32,
    pub op: Op,
}

impl OpRec {
    pub fn to_json(&self) -> J {
        let mut j = self.op.to_json();
        j.set("id", J::u(self.id as u64));
        j
    }
    pub fn from_json(j: &J) -> Option<OpRec> {
        Some(OpRec {
            id: j.gu("id") as u32,
            op: Op::from_json(j)?,
        })
    }
}
