//! SimAlloc — the allocator seam.
//!
//! A `#[global_allocator]` wrapper around `System`. Worker processes run the code
//! under test on a single thread, so the *scope* is one process-global variable:
//!
//! * `Off`    — harness code; nothing recorded.
//! * `Stream` — `ElfStream` code is running (C08): every request is counted, the maximum
//!              is kept, requests above the run's bound are recorded, and requests above a
//!              hard cap are REFUSED (null) after a record has been written with a raw
//!              `write(2)`; Rust then aborts the worker and the supervisor turns the
//!              record into a violation.
//! * `Slice`  — `ElfBytes` code is running (C06): deny mode, any allocator call at all is
//!              recorded as a violation (then served so the run can report cleanly).

use std::alloc::{GlobalAlloc, Layout, System};
use std::sync::atomic::{AtomicI32, AtomicU64, AtomicU8, AtomicUsize, Ordering::Relaxed};

pub const OFF: u8 = 0;
pub const STREAM: u8 = 1;
pub const SLICE: u8 = 2;

/// Requests above this are refused in `Stream` scope (the "failing allocation" fault).
pub const HARD_CAP: usize = 1 << 30;

static SCOPE: AtomicU8 = AtomicU8::new(OFF);
static ST_COUNT: AtomicU64 = AtomicU64::new(0);
static ST_MAX: AtomicUsize = AtomicUsize::new(0);
static ST_BOUND: AtomicUsize = AtomicUsize::new(usize::MAX);
static ST_OVER: AtomicU64 = AtomicU64::new(0);
static ST_OVER_FIRST: AtomicUsize = AtomicUsize::new(0);
static SL_COUNT: AtomicU64 = AtomicU64::new(0);
static SL_FIRST: AtomicUsize = AtomicUsize::new(0);
static ABORT_FD: AtomicI32 = AtomicI32::new(-1);

extern "C" {
    fn write(fd: i32, buf: *const u8, count: usize) -> isize;
}

pub struct SimAlloc;

#[inline]
fn note(size: usize) -> bool {
    // returns false when the request must be refused
    match SCOPE.load(Relaxed) {
        OFF => true,
        STREAM => {
            ST_COUNT.fetch_add(1, Relaxed);
            if size > ST_MAX.load(Relaxed) {
                ST_MAX.store(size, Relaxed);
            }
            if size > ST_BOUND.load(Relaxed) {
                if ST_OVER.fetch_add(1, Relaxed) == 0 {
                    ST_OVER_FIRST.store(size, Relaxed);
                }
                if size > HARD_CAP {
                    refuse_record(size);
                    return false;
                }
            }
            true
        }
        _ => {
            if SL_COUNT.fetch_add(1, Relaxed) == 0 {
                SL_FIRST.store(size, Relaxed);
            }
            true
        }
    }
}

#[cold]
fn refuse_record(size: usize) {
    let fd = ABORT_FD.load(Relaxed);
    if fd < 0 {
        return;
    }
    // "ALLOC_REFUSED size=<decimal>\n" without allocating
    let mut buf = [0u8; 64];
    let head = b"ALLOC_REFUSED size=";
    buf[..head.len()].copy_from_slice(head);
    let mut n = head.len();
    let mut digits = [0u8; 24];
    let mut d = 0;
    let mut v = size;
    loop {
        digits[d] = b'0' + (v % 10) as u8;
        d += 1;
        v /= 10;
        if v == 0 {
            break;
        }
    }
    while d > 0 {
        d -= 1;
        buf[n] = digits[d];
        n += 1;
    }
    buf[n] = b'\n';
    n += 1;
    unsafe {
        write(fd, buf.as_ptr(), n);
    }
}

unsafe impl GlobalAlloc for SimAlloc {
    unsafe fn alloc(&self, layout: Layout) -> *mut u8 {
        if !note(layout.size()) {
            return std::ptr::null_mut();
        }
        System.alloc(layout)
    }
    unsafe fn alloc_zeroed(&self, layout: Layout) -> *mut u8 {
        if !note(layout.size()) {
            return std::ptr::null_mut();
        }
        System.alloc_zeroed(layout)
    }
    unsafe fn realloc(&self, ptr: *mut u8, layout: Layout, new_size: usize) -> *mut u8 {
        if !note(new_size) {
            return std::ptr::null_mut();
        }
        System.realloc(ptr, layout, new_size)
    }
    unsafe fn dealloc(&self, ptr: *mut u8, layout: Layout) {
        System.dealloc(ptr, layout)
    }
}

#[inline]
pub fn scope() -> u8 {
    SCOPE.load(Relaxed)
}
#[inline]
pub fn set_scope(s: u8) -> u8 {
    SCOPE.swap(s, Relaxed)
}

/// Set the file descriptor that receives refusal records (opened by the worker).
pub fn set_abort_fd(fd: i32) {
    ABORT_FD.store(fd, Relaxed);
}

#[derive(Clone, Copy, Debug, Default)]
pub struct StreamStats {
    pub count: u64,
    pub max: usize,
    pub over: u64,
    pub over_first: usize,
}

/// Reset the stream-scope counters and set the bound for the next call.
pub fn stream_begin(bound: usize) {
    ST_COUNT.store(0, Relaxed);
    ST_MAX.store(0, Relaxed);
    ST_OVER.store(0, Relaxed);
    ST_OVER_FIRST.store(0, Relaxed);
    ST_BOUND.store(bound, Relaxed);
}
pub fn stream_stats() -> StreamStats {
    StreamStats {
        count: ST_COUNT.load(Relaxed),
        max: ST_MAX.load(Relaxed),
        over: ST_OVER.load(Relaxed),
        over_first: ST_OVER_FIRST.load(Relaxed),
    }
}

pub fn slice_begin() {
    SL_COUNT.store(0, Relaxed);
    SL_FIRST.store(0, Relaxed);
}
/// (number of allocator calls seen in Slice scope, size of the first one)
pub fn slice_stats() -> (u64, usize) {
    (SL_COUNT.load(Relaxed), SL_FIRST.load(Relaxed))
}

/// RAII guard: switch the scope for a region and restore the previous one.
pub struct ScopeGuard(u8);
impl ScopeGuard {
    #[inline]
    pub fn enter(s: u8) -> ScopeGuard {
        ScopeGuard(set_scope(s))
    }
}
impl Drop for ScopeGuard {
    #[inline]
    fn drop(&mut self) {
        set_scope(self.0);
    }
}
