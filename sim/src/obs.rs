//! The observation function: one visitor, written once, turns the result of an op on
//! either parser into a canonical byte encoding. Error *kinds* of parser calls are not
//! observed (the parsers legitimately differ in which ParseError variant they pick).
//!
//! None of the helpers allocates: with `FnvSink` the whole observation is alloc-free,
//! which is what C06's deny-mode allocator relies on.

use elf::compression::CompressionHeader;
use elf::dynamic::DynamicTable;
use elf::endian::EndianParse;
use elf::file::{Class, FileHeader};
use elf::gnu_symver::SymbolVersionTable;
use elf::hash::{GnuHashTable, SysVHashTable};
use elf::note::{Note, NoteIterator};
use elf::relocation::{RelIterator, RelaIterator};
use elf::section::SectionHeader;
use elf::segment::ProgramHeader;
use elf::string_table::StringTable;
use elf::symbol::{Symbol, SymbolTable};
use elf::ParseError;

pub trait Sink {
    fn put(&mut self, b: &[u8]);
    #[inline]
    fn u8(&mut self, v: u8) {
        self.put(&[v]);
    }
    #[inline]
    fn u16(&mut self, v: u16) {
        self.put(&v.to_le_bytes());
    }
    #[inline]
    fn u32(&mut self, v: u32) {
        self.put(&v.to_le_bytes());
    }
    #[inline]
    fn u64(&mut self, v: u64) {
        self.put(&v.to_le_bytes());
    }
    #[inline]
    fn bytes(&mut self, b: &[u8]) {
        self.u64(b.len() as u64);
        self.put(b);
    }
}

pub struct VecSink(pub Vec<u8>);
impl Sink for VecSink {
    #[inline]
    fn put(&mut self, b: &[u8]) {
        self.0.extend_from_slice(b);
    }
}

pub struct FnvSink(pub u64);
impl FnvSink {
    pub fn new() -> FnvSink {
        FnvSink(crate::rng::FNV_INIT)
    }
}
impl Sink for FnvSink {
    #[inline]
    fn put(&mut self, b: &[u8]) {
        self.0 = crate::rng::fnv1a(self.0, b);
    }
}

/// Marker bytes inside the content stream.
const M_NONE: u8 = 0xA0;
const M_SOME: u8 = 0xA1;
const M_ERR: u8 = 0xA2;
const M_OK: u8 = 0xA3;
const M_END: u8 = 0xA4;
const M_CAP: u8 = 0xA5;

/// Limits that bound every drain.
#[derive(Clone, Copy, Debug)]
pub struct Caps {
    /// max items pulled from any iterator (1 per input byte + 16)
    pub items: usize,
    /// number of entries in the versym table per the header model (for index choice)
    pub symver_n: usize,
}

pub fn class_u8(c: Class) -> u8 {
    match c {
        Class::ELF32 => 1,
        Class::ELF64 => 2,
    }
}

pub fn o_ehdr<E: EndianParse, K: Sink>(k: &mut K, e: &FileHeader<E>) {
    k.u8(class_u8(e.class));
    k.u8(if e.endianness.is_little() { 1 } else { 2 });
    k.u32(e.version);
    k.u8(e.osabi);
    k.u8(e.abiversion);
    k.u16(e.e_type);
    k.u16(e.e_machine);
    k.u64(e.e_entry);
    k.u64(e.e_phoff);
    k.u64(e.e_shoff);
    k.u32(e.e_flags);
    k.u16(e.e_ehsize);
    k.u16(e.e_phentsize);
    k.u16(e.e_phnum);
    k.u16(e.e_shentsize);
    k.u16(e.e_shnum);
    k.u16(e.e_shstrndx);
}

pub fn o_shdr<K: Sink>(k: &mut K, s: &SectionHeader) {
    k.u32(s.sh_name);
    k.u32(s.sh_type);
    k.u64(s.sh_flags);
    k.u64(s.sh_addr);
    k.u64(s.sh_offset);
    k.u64(s.sh_size);
    k.u32(s.sh_link);
    k.u32(s.sh_info);
    k.u64(s.sh_addralign);
    k.u64(s.sh_entsize);
}

pub fn o_phdr<K: Sink>(k: &mut K, p: &ProgramHeader) {
    k.u32(p.p_type);
    k.u64(p.p_offset);
    k.u64(p.p_vaddr);
    k.u64(p.p_paddr);
    k.u64(p.p_filesz);
    k.u64(p.p_memsz);
    k.u32(p.p_flags);
    k.u64(p.p_align);
}

/// A list of section headers: entries then count.
pub fn o_shdr_list<K: Sink, I: Iterator<Item = SectionHeader>>(k: &mut K, it: I, caps: &Caps) {
    let mut n: u64 = 0;
    for s in it {
        if n as usize >= caps.items {
            k.u8(M_CAP);
            break;
        }
        o_shdr(k, &s);
        n += 1;
    }
    k.u8(M_END);
    k.u64(n);
}

pub fn o_phdr_list<K: Sink, I: Iterator<Item = ProgramHeader>>(k: &mut K, it: I, caps: &Caps) {
    let mut n: u64 = 0;
    for p in it {
        if n as usize >= caps.items {
            k.u8(M_CAP);
            break;
        }
        o_phdr(k, &p);
        n += 1;
    }
    k.u8(M_END);
    k.u64(n);
}

fn strtab_err_code(e: &ParseError) -> u8 {
    // Both parsers go through the same StringTable code, so the variant is content here:
    // BadOffset means "offset beyond the table", MissingNul means "inside, unterminated".
    match e {
        ParseError::BadOffset(_) => 1,
        ParseError::StringTableMissingNul(_) => 2,
        _ => 3,
    }
}

pub fn o_strtab_probe<K: Sink>(k: &mut K, st: &StringTable<'_>, off: usize) {
    match st.get_raw(off) {
        Ok(b) => {
            k.u8(M_OK);
            k.bytes(b);
        }
        Err(e) => {
            k.u8(M_ERR);
            k.u8(strtab_err_code(&e));
        }
    }
}

/// Walk a string table from offset 0 string by string (observes every byte up to the
/// last NUL), then measure the unterminated tail and probe a few offsets beyond.
pub fn o_strtab<K: Sink>(k: &mut K, st: &StringTable<'_>, caps: &Caps) {
    let mut off: usize = 0;
    let mut n: usize = 0;
    loop {
        if n >= caps.items {
            k.u8(M_CAP);
            break;
        }
        match st.get_raw(off) {
            Ok(b) => {
                k.bytes(b);
                off += b.len() + 1;
                n += 1;
            }
            Err(e) => {
                k.u8(M_ERR);
                k.u8(strtab_err_code(&e));
                // measure an unterminated tail (<= 64 steps)
                let mut t = 0u8;
                if matches!(e, ParseError::StringTableMissingNul(_)) {
                    while t < 64 {
                        match st.get_raw(off + 1 + t as usize) {
                            Err(ParseError::StringTableMissingNul(_)) => t += 1,
                            _ => break,
                        }
                    }
                }
                k.u8(t);
                break;
            }
        }
    }
    k.u64(off as u64);
    // utf8 view of the first string and a far probe
    match st.get(0) {
        Ok(s) => {
            k.u8(M_OK);
            k.bytes(s.as_bytes());
        }
        Err(_) => k.u8(M_ERR),
    }
    o_strtab_probe(k, st, off.wrapping_add(1));
    o_strtab_probe(k, st, usize::MAX);
}

pub fn o_sym<K: Sink>(k: &mut K, s: &Symbol) {
    k.u32(s.st_name);
    k.u16(s.st_shndx);
    k.u8(s.st_info);
    k.u8(s.st_other);
    k.u64(s.st_value);
    k.u64(s.st_size);
}

pub fn o_symtab<E: EndianParse, K: Sink>(
    k: &mut K,
    tab: &SymbolTable<'_, E>,
    strs: &StringTable<'_>,
    caps: &Caps,
) {
    let len = tab.len();
    k.u64(len as u64);
    k.u8(tab.is_empty() as u8);
    let lim = len.min(caps.items);
    for i in 0..lim {
        match tab.get(i) {
            Ok(s) => {
                k.u8(M_OK);
                o_sym(k, &s);
                o_strtab_probe(k, strs, s.st_name as usize);
            }
            Err(_) => k.u8(M_ERR),
        }
    }
    // out-of-range probes
    for i in [len, len.wrapping_add(1), usize::MAX] {
        match tab.get(i) {
            Ok(s) => {
                k.u8(M_OK);
                o_sym(k, &s);
            }
            Err(_) => k.u8(M_ERR),
        }
    }
    let mut n = 0u64;
    for s in tab.iter() {
        if n as usize >= caps.items {
            k.u8(M_CAP);
            break;
        }
        // iter must agree with get(); fold the entry in again (cheap, keeps order)
        k.u32(s.st_name);
        n += 1;
    }
    k.u64(n);
    o_strtab(k, strs, caps);
}

pub fn o_dyntab<E: EndianParse, K: Sink>(k: &mut K, tab: &DynamicTable<'_, E>, caps: &Caps) {
    let len = tab.len();
    k.u64(len as u64);
    let lim = len.min(caps.items);
    for i in 0..lim {
        match tab.get(i) {
            Ok(d) => {
                k.u8(M_OK);
                k.u64(d.d_tag as u64);
                k.u64(d.d_val());
            }
            Err(_) => k.u8(M_ERR),
        }
    }
    match tab.get(len) {
        Ok(_) => k.u8(M_OK),
        Err(_) => k.u8(M_ERR),
    }
    let mut n = 0u64;
    for d in tab.iter() {
        if n as usize >= caps.items {
            k.u8(M_CAP);
            break;
        }
        k.u64(d.d_tag as u64);
        n += 1;
    }
    k.u64(n);
}

pub fn o_chdr<K: Sink>(k: &mut K, c: &Option<CompressionHeader>) {
    match c {
        None => k.u8(M_NONE),
        Some(c) => {
            k.u8(M_SOME);
            k.u32(c.ch_type);
            k.u64(c.ch_size);
            k.u64(c.ch_addralign);
        }
    }
}

pub fn o_rels<E: EndianParse, K: Sink>(k: &mut K, it: RelIterator<'_, E>, caps: &Caps) {
    let mut n = 0u64;
    for r in it {
        if n as usize >= caps.items {
            k.u8(M_CAP);
            break;
        }
        k.u64(r.r_offset);
        k.u32(r.r_sym);
        k.u32(r.r_type);
        n += 1;
    }
    k.u8(M_END);
    k.u64(n);
}

pub fn o_relas<E: EndianParse, K: Sink>(k: &mut K, it: RelaIterator<'_, E>, caps: &Caps) {
    let mut n = 0u64;
    for r in it {
        if n as usize >= caps.items {
            k.u8(M_CAP);
            break;
        }
        k.u64(r.r_offset);
        k.u32(r.r_sym);
        k.u32(r.r_type);
        k.u64(r.r_addend as u64);
        n += 1;
    }
    k.u8(M_END);
    k.u64(n);
}

pub fn o_notes<E: EndianParse, K: Sink>(k: &mut K, it: NoteIterator<'_, E>, caps: &Caps) {
    let mut n = 0u64;
    for note in it {
        if n as usize >= caps.items {
            k.u8(M_CAP);
            break;
        }
        match note {
            Note::GnuAbiTag(t) => {
                k.u8(1);
                k.u32(t.os);
                k.u32(t.major);
                k.u32(t.minor);
                k.u32(t.subminor);
            }
            Note::GnuBuildId(b) => {
                k.u8(2);
                k.bytes(b.0);
            }
            Note::Unknown(a) => {
                k.u8(3);
                k.u64(a.n_type);
                k.bytes(a.name);
                k.bytes(a.desc);
                match a.name_str() {
                    Ok(s) => {
                        k.u8(M_OK);
                        k.bytes(s.as_bytes());
                    }
                    Err(_) => k.u8(M_ERR),
                }
            }
        }
        n += 1;
    }
    k.u8(M_END);
    k.u64(n);
}

fn symver_index<E: EndianParse, K: Sink>(
    k: &mut K,
    t: &SymbolVersionTable<'_, E>,
    i: usize,
    caps: &Caps,
) {
    k.u64(i as u64);
    match t.get_requirement(i) {
        Ok(None) => k.u8(M_NONE),
        Ok(Some(r)) => {
            k.u8(M_SOME);
            k.bytes(r.file.as_bytes());
            k.bytes(r.name.as_bytes());
            k.u32(r.hash);
            k.u16(r.flags);
            k.u8(r.hidden as u8);
        }
        Err(_) => k.u8(M_ERR),
    }
    match t.get_definition(i) {
        Ok(None) => k.u8(M_NONE),
        Ok(Some(d)) => {
            k.u8(M_SOME);
            k.u32(d.hash);
            k.u16(d.flags);
            k.u8(d.hidden as u8);
            let mut n = 0usize;
            for name in d.names {
                if n >= caps.items {
                    k.u8(M_CAP);
                    break;
                }
                match name {
                    Ok(s) => {
                        k.u8(M_OK);
                        k.bytes(s.as_bytes());
                    }
                    Err(_) => k.u8(M_ERR),
                }
                n += 1;
            }
            k.u8(M_END);
        }
        Err(_) => k.u8(M_ERR),
    }
}

pub fn o_symver<E: EndianParse, K: Sink>(k: &mut K, t: &SymbolVersionTable<'_, E>, caps: &Caps) {
    let n = caps.symver_n;
    let head = n.min(48);
    for i in 0..head {
        symver_index(k, t, i, caps);
    }
    let tail_start = n.saturating_sub(8).max(head);
    for i in tail_start..n {
        symver_index(k, t, i, caps);
    }
    symver_index(k, t, n, caps);
    symver_index(k, t, n.wrapping_add(1), caps);
    symver_index(k, t, usize::MAX / 2, caps);
}

fn o_find_result<K: Sink>(k: &mut K, r: Result<Option<(usize, Symbol)>, ParseError>) {
    match r {
        Ok(None) => k.u8(M_NONE),
        Ok(Some((i, s))) => {
            k.u8(M_SOME);
            k.u64(i as u64);
            o_sym(k, &s);
        }
        Err(_) => k.u8(M_ERR),
    }
}

/// Hash lookups for present and absent names (names are borrowed from the dynsym strtab:
/// no allocation).
pub fn o_hash_finds<E: EndianParse, K: Sink>(
    k: &mut K,
    sysv: Option<&SysVHashTable<'_, E>>,
    gnu: Option<&GnuHashTable<'_, E>>,
    syms: &SymbolTable<'_, E>,
    strs: &StringTable<'_>,
) {
    let absent: [&[u8]; 3] = [b"", b"zz_absent_symbol", b"memset@"];
    let n = syms.len();
    let mut probe = |name: &[u8], k: &mut K| {
        if let Some(h) = sysv {
            o_find_result(k, h.find(name, syms, strs));
        }
        if let Some(h) = gnu {
            o_find_result(k, h.find(name, syms, strs));
        }
    };
    // present names: the first 12 and last 4 symbols
    let head = n.min(12);
    for i in (0..head).chain(n.saturating_sub(4).max(head)..n) {
        if let Ok(s) = syms.get(i) {
            if let Ok(name) = strs.get_raw(s.st_name as usize) {
                probe(name, k);
            }
        }
    }
    for a in absent.iter() {
        probe(a, k);
    }
    if let Some(g) = gnu {
        k.u32(g.hdr.nbucket);
        k.u32(g.hdr.table_start_idx);
        k.u32(g.hdr.nbloom);
        k.u32(g.hdr.nshift);
    }
}

pub fn o_opt_marker<K: Sink>(k: &mut K, some: bool) {
    k.u8(if some { M_SOME } else { M_NONE });
}
