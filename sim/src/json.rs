//! Minimal JSON value, writer and parser (no third-party crates).
//! Object key order is preserved (Vec of pairs) so output is deterministic.

use std::fmt::Write as _;

#[derive(Clone, Debug, PartialEq)]
pub enum J {
    Null,
    Bool(bool),
    Int(i128),
    Float(f64),
    Str(String),
    Arr(Vec<J>),
    Obj(Vec<(String, J)>),
}

impl J {
    pub fn obj() -> J {
        J::Obj(Vec::new())
    }
    pub fn s(v: &str) -> J {
        J::Str(v.to_string())
    }
    pub fn u(v: u64) -> J {
        J::Int(v as i128)
    }
    pub fn i(v: i64) -> J {
        J::Int(v as i128)
    }
    pub fn set(&mut self, k: &str, v: J) -> &mut J {
        if let J::Obj(ref mut kv) = self {
            for e in kv.iter_mut() {
                if e.0 == k {
                    e.1 = v;
                    return self;
                }
            }
            kv.push((k.to_string(), v));
        }
        self
    }
    pub fn with(mut self, k: &str, v: J) -> J {
        self.set(k, v);
        self
    }
    pub fn get(&self, k: &str) -> Option<&J> {
        match self {
            J::Obj(kv) => kv.iter().find(|e| e.0 == k).map(|e| &e.1),
            _ => None,
        }
    }
    pub fn as_u64(&self) -> Option<u64> {
        match self {
            J::Int(v) if *v >= 0 && *v <= u64::MAX as i128 => Some(*v as u64),
            _ => None,
        }
    }
    pub fn as_i64(&self) -> Option<i64> {
        match self {
            J::Int(v) => Some(*v as i64),
            _ => None,
        }
    }
    pub fn as_f64(&self) -> Option<f64> {
        match self {
            J::Int(v) => Some(*v as f64),
            J::Float(f) => Some(*f),
            _ => None,
        }
    }
    pub fn as_str(&self) -> Option<&str> {
        match self {
            J::Str(s) => Some(s),
            _ => None,
        }
    }
    pub fn as_bool(&self) -> Option<bool> {
        match self {
            J::Bool(b) => Some(*b),
            _ => None,
        }
    }
    pub fn as_arr(&self) -> Option<&Vec<J>> {
        match self {
            J::Arr(a) => Some(a),
            _ => None,
        }
    }
    pub fn as_obj(&self) -> Option<&Vec<(String, J)>> {
        match self {
            J::Obj(a) => Some(a),
            _ => None,
        }
    }
    pub fn gu(&self, k: &str) -> u64 {
        self.get(k).and_then(|v| v.as_u64()).unwrap_or(0)
    }
    pub fn gs(&self, k: &str) -> &str {
        self.get(k).and_then(|v| v.as_str()).unwrap_or("")
    }

    pub fn dump(&self) -> String {
        let mut s = String::new();
        self.write(&mut s, None, 0);
        s
    }
    pub fn pretty(&self) -> String {
        let mut s = String::new();
        self.write(&mut s, Some(1), 0);
        s.push('\n');
        s
    }

    fn write(&self, out: &mut String, indent: Option<usize>, depth: usize) {
        match self {
            J::Null => out.push_str("null"),
            J::Bool(b) => out.push_str(if *b { "true" } else { "false" }),
            J::Int(v) => {
                let _ = write!(out, "{}", v);
            }
            J::Float(f) => {
                if f.is_finite() {
                    let _ = write!(out, "{:.3}", f);
                } else {
                    out.push_str("null");
                }
            }
            J::Str(s) => write_str(out, s),
            J::Arr(a) => {
                if a.is_empty() {
                    out.push_str("[]");
                    return;
                }
                out.push('[');
                let scalar = a.iter().all(|x| !matches!(x, J::Arr(_) | J::Obj(_)));
                for (i, v) in a.iter().enumerate() {
                    if i > 0 {
                        out.push(',');
                    }
                    if !scalar {
                        nl(out, indent, depth + 1);
                    } else if i > 0 && indent.is_some() {
                        out.push(' ');
                    }
                    v.write(out, indent, depth + 1);
                }
                if !scalar {
                    nl(out, indent, depth);
                }
                out.push(']');
            }
            J::Obj(kv) => {
                if kv.is_empty() {
                    out.push_str("{}");
                    return;
                }
                out.push('{');
                for (i, (k, v)) in kv.iter().enumerate() {
                    if i > 0 {
                        out.push(',');
                    }
                    nl(out, indent, depth + 1);
                    write_str(out, k);
                    out.push(':');
                    if indent.is_some() {
                        out.push(' ');
                    }
                    v.write(out, indent, depth + 1);
                }
                nl(out, indent, depth);
                out.push('}');
            }
        }
    }
}

fn nl(out: &mut String, indent: Option<usize>, depth: usize) {
    if let Some(n) = indent {
        out.push('\n');
        for _ in 0..(n * depth) {
            out.push(' ');
        }
    }
}

fn write_str(out: &mut String, s: &str) {
    out.push('"');
    for c in s.chars() {
        match c {
            '"' => out.push_str("\\\""),
            '\\' => out.push_str("\\\\"),
            '\n' => out.push_str("\\n"),
            '\r' => out.push_str("\\r"),
            '\t' => out.push_str("\\t"),
            c if (c as u32) < 0x20 => {
                let _ = write!(out, "\\u{:04x}", c as u32);
            }
            c => out.push(c),
        }
    }
    out.push('"');
}

pub fn parse(text: &str) -> Result<J, String> {
    let b = text.as_bytes();
    let mut p = P { b, i: 0 };
    p.ws();
    let v = p.value()?;
    p.ws();
    if p.i != b.len() {
        return Err(format!("trailing data at byte {}", p.i));
    }
    Ok(v)
}

struct P<'a> {
    b: &'a [u8],
    i: usize,
}

impl<'a> P<'a> {
    fn ws(&mut self) {
        while self.i < self.b.len() && matches!(self.b[self.i], b' ' | b'\n' | b'\r' | b'\t') {
            self.i += 1;
        }
    }
    fn eat(&mut self, c: u8) -> Result<(), String> {
        if self.i < self.b.len() && self.b[self.i] == c {
            self.i += 1;
            Ok(())
        } else {
            Err(format!("expected '{}' at byte {}", c as char, self.i))
        }
    }
    fn lit(&mut self, s: &str, v: J) -> Result<J, String> {
        if self.b[self.i..].starts_with(s.as_bytes()) {
            self.i += s.len();
            Ok(v)
        } else {
            Err(format!("bad literal at byte {}", self.i))
        }
    }
    fn value(&mut self) -> Result<J, String> {
        if self.i >= self.b.len() {
            return Err("unexpected end".into());
        }
        match self.b[self.i] {
            b'n' => self.lit("null", J::Null),
            b't' => self.lit("true", J::Bool(true)),
            b'f' => self.lit("false", J::Bool(false)),
            b'"' => Ok(J::Str(self.string()?)),
            b'[' => {
                self.i += 1;
                let mut a = Vec::new();
                self.ws();
                if self.i < self.b.len() && self.b[self.i] == b']' {
                    self.i += 1;
                    return Ok(J::Arr(a));
                }
                loop {
                    self.ws();
                    a.push(self.value()?);
                    self.ws();
                    if self.i < self.b.len() && self.b[self.i] == b',' {
                        self.i += 1;
                        continue;
                    }
                    self.eat(b']')?;
                    return Ok(J::Arr(a));
                }
            }
            b'{' => {
                self.i += 1;
                let mut kv = Vec::new();
                self.ws();
                if self.i < self.b.len() && self.b[self.i] == b'}' {
                    self.i += 1;
                    return Ok(J::Obj(kv));
                }
                loop {
                    self.ws();
                    let k = self.string()?;
                    self.ws();
                    self.eat(b':')?;
                    self.ws();
                    let v = self.value()?;
                    kv.push((k, v));
                    self.ws();
                    if self.i < self.b.len() && self.b[self.i] == b',' {
                        self.i += 1;
                        continue;
                    }
                    self.eat(b'}')?;
                    return Ok(J::Obj(kv));
                }
            }
            _ => self.number(),
        }
    }
    fn number(&mut self) -> Result<J, String> {
        let st = self.i;
        let mut is_float = false;
        while self.i < self.b.len() {
            match self.b[self.i] {
                b'0'..=b'9' | b'-' | b'+' => {}
                b'.' | b'e' | b'E' => is_float = true,
                _ => break,
            }
            self.i += 1;
        }
        let t = std::str::from_utf8(&self.b[st..self.i]).map_err(|e| e.to_string())?;
        if t.is_empty() {
            return Err(format!("unexpected byte at {}", st));
        }
        if is_float {
            t.parse::<f64>().map(J::Float).map_err(|e| e.to_string())
        } else {
            t.parse::<i128>().map(J::Int).map_err(|e| e.to_string())
        }
    }
    fn string(&mut self) -> Result<String, String> {
        self.eat(b'"')?;
        let mut out = Vec::new();
        while self.i < self.b.len() {
            let c = self.b[self.i];
            self.i += 1;
            match c {
                b'"' => return String::from_utf8(out).map_err(|e| e.to_string()),
                b'\\' => {
                    if self.i >= self.b.len() {
                        break;
                    }
                    let e = self.b[self.i];
                    self.i += 1;
                    match e {
                        b'n' => out.push(b'\n'),
                        b'r' => out.push(b'\r'),
                        b't' => out.push(b'\t'),
                        b'b' => out.push(8),
                        b'f' => out.push(12),
                        b'u' => {
                            if self.i + 4 > self.b.len() {
                                return Err("bad \\u".into());
                            }
                            let h = std::str::from_utf8(&self.b[self.i..self.i + 4])
                                .map_err(|e| e.to_string())?;
                            let cp = u32::from_str_radix(h, 16).map_err(|e| e.to_string())?;
                            self.i += 4;
                            let ch = char::from_u32(cp).unwrap_or('\u{fffd}');
                            let mut buf = [0u8; 4];
                            out.extend_from_slice(ch.encode_utf8(&mut buf).as_bytes());
                        }
                        other => out.push(other),
                    }
                }
                c => out.push(c),
            }
        }
        Err("unterminated string".into())
    }
}

pub fn hex(bytes: &[u8]) -> String {
    const H: &[u8; 16] = b"0123456789abcdef";
    let mut s = String::with_capacity(bytes.len() * 2);
    for b in bytes {
        s.push(H[(b >> 4) as usize] as char);
        s.push(H[(b & 15) as usize] as char);
    }
    s
}

pub fn unhex(s: &str) -> Result<Vec<u8>, String> {
    let b = s.as_bytes();
    if b.len() % 2 != 0 {
        return Err("odd hex length".into());
    }
    let d = |c: u8| -> Result<u8, String> {
        match c {
            b'0'..=b'9' => Ok(c - b'0'),
            b'a'..=b'f' => Ok(c - b'a' + 10),
            b'A'..=b'F' => Ok(c - b'A' + 10),
            _ => Err("bad hex digit".into()),
        }
    };
    let mut out = Vec::with_capacity(b.len() / 2);
    for p in b.chunks(2) {
        out.push((d(p[0])? << 4) | d(p[1])?);
    }
    Ok(out)
}
