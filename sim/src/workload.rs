//! Workload generation: op histories (with synthetic header arguments and deliberate
//! repetition), the canonical full query set, spec and reader-profile choice.

use crate::hdr::{self, Model, Phdr, Shdr};
use crate::ops::{Op, OpRec};
use crate::rng::Rng;
use crate::scen::Spec;
use std::collections::HashSet;

/// Section names real programs look up (present in some images, absent in most).
/// Names a caller may pass that are not plain ASCII: the Unicode replacement character (what
/// a lossy decode of a damaged name produces), a multi-byte character, an embedded NUL.
pub const ODD_NAMES: [&str; 4] = [".te\u{fffd}t", "\u{fffd}", ".d\u{e9}bug", ".a\0b"];

pub const COMMON_NAMES: [&str; 10] = [
    ".debug_info",
    ".debug_abbrev",
    ".zdebug_info",
    ".comment",
    ".text",
    ".data",
    ".bss",
    ".gnu_debuglink",
    ".rela.dyn",
    ".note.gnu.build-id",
];

/// The op generator stops introducing new byte ranges once a stream has been asked for
/// this many distinct (start,size) pairs (keeps the cache's bookkeeping a fixed few KiB).
pub const MAX_DISTINCT_RANGES: usize = 112;

/// How many distinct byte ranges a history may ask one stream of `len` bytes for, so that
/// the bookkeeping of a cache with up to 48 bytes per entry (hash map with power-of-two
/// buckets at 7/8 load) stays under C08's bound `4*len + 16384`; 16 entries are kept in
/// reserve for the ranges the multi-range accessors add themselves.
pub fn max_distinct(len: u64) -> usize {
    let budget = (4 * len + 16_384) / 49;
    let mut buckets: u64 = 1;
    while buckets * 2 <= budget {
        buckets *= 2;
    }
    let entries = (buckets * 7 / 8) as usize;
    entries.saturating_sub(16).clamp(MAX_DISTINCT_RANGES - 16, 1100)
}

pub fn draw_spec(rng: &mut Rng, bytes: &[u8]) -> Spec {
    // mostly AnyEndian or the matching fixed spec; sometimes the mismatching one
    let be = bytes.get(5).copied() == Some(2);
    match rng.below(10) {
        0..=3 => Spec::Any,
        4..=8 => {
            if be {
                Spec::Be
            } else {
                Spec::Le
            }
        }
        _ => {
            if be {
                Spec::Le
            } else {
                Spec::Be
            }
        }
    }
}

fn name_at(bytes: &[u8], strtab: &Shdr, off: u32) -> Option<String> {
    let start = strtab.offset.checked_add(off as u64)? as usize;
    let end = strtab.offset.checked_add(strtab.size)? as usize;
    if start >= end || end > bytes.len() {
        return None;
    }
    let s = &bytes[start..end];
    let n = s.iter().position(|b| *b == 0)?;
    std::str::from_utf8(&s[..n]).ok().map(|x| x.to_string())
}

fn section_names(bytes: &[u8], m: &Model) -> Vec<String> {
    let mut v = Vec::new();
    if let Some(i) = m.shstrndx() {
        if let Some(st) = m.shdrs.get(i) {
            for s in m.shdrs.iter().take(64) {
                if let Some(n) = name_at(bytes, st, s.name) {
                    v.push(n);
                }
            }
        }
    }
    v
}

fn typed_view(s: &Shdr) -> Option<Op> {
    match s.typ {
        hdr::SHT_STRTAB => Some(Op::AsStrtab(*s)),
        hdr::SHT_REL => Some(Op::AsRels(*s)),
        hdr::SHT_RELA => Some(Op::AsRelas(*s)),
        hdr::SHT_NOTE => Some(Op::AsNotes(*s)),
        _ => None,
    }
}

/// Derive a synthetic header from `s`: same type, range sharing a start or an end with
/// the original, or empty, or ending one past EOF.
fn synth_shdr(rng: &mut Rng, s: &Shdr, len: u64) -> Shdr {
    let mut t = *s;
    match rng.below(7) {
        0 => {
            // same start, shorter
            t.size = if s.size > 0 { rng.below(s.size) } else { 0 };
        }
        1 => {
            // same end, later start
            let cut = if s.size > 0 { rng.below(s.size) } else { 0 };
            t.offset = s.offset.wrapping_add(cut);
            t.size = s.size - cut;
        }
        2 => {
            t.size = 0;
        }
        3 => {
            // empty at the end of the range
            t.offset = s.offset.wrapping_add(s.size);
            t.size = 0;
        }
        4 => {
            // ends exactly at EOF
            if s.offset <= len {
                t.size = len - s.offset;
            }
        }
        5 => {
            // ends one past EOF
            if s.offset <= len {
                t.size = len - s.offset + 1;
            }
        }
        _ => {
            // strictly nested
            if s.size >= 2 {
                let a = rng.below(s.size - 1) + 1;
                t.offset = s.offset.wrapping_add(a);
                t.size = rng.below(s.size - a + 1);
            }
        }
    }
    t
}

/// "Arithmetic twin" of a range that was already queried: the same range displaced by a
/// power of two that a truncating, packing or hashing cache key would lose (2^16, 2^31,
/// 2^32, 2^48, 2^63), or the two numbers packed into one. The twin lies outside any real
/// file, so the only correct answer is an error; a cache that confuses it with the cached
/// original answers Ok.
fn alias_twin(rng: &mut Rng, off: u64, size: u64) -> (u64, u64) {
    let end = off.wrapping_add(size);
    let sh = *rng.pick(&[16u32, 31, 32, 48, 63]);
    let d = 1u64 << sh;
    match rng.below(8) {
        0 => (off.wrapping_add(d), size),
        1 => (off, size.wrapping_add(d)),
        2 => (off.wrapping_add(d), size.wrapping_add(d)),
        // (start << 32) | end packed into one word, seen as a size from offset 0
        3 => (0, (off << 32) | (end & 0xffff_ffff)),
        4 => (0, (end << 32) | (off & 0xffff_ffff)),
        // start kept, end displaced so that the low 32 bits of the end agree
        5 => (off, (end.wrapping_add(d)).wrapping_sub(off)),
        6 => (off | d, size),
        _ => (off, size | d),
    }
}

fn synth_phdr(rng: &mut Rng, p: &Phdr, len: u64) -> Phdr {
    let mut t = *p;
    match rng.below(5) {
        0 => t.filesz = if p.filesz > 0 { rng.below(p.filesz) } else { 0 },
        1 => {
            let cut = if p.filesz > 0 { rng.below(p.filesz) } else { 0 };
            t.offset = p.offset.wrapping_add(cut);
            t.filesz = p.filesz - cut;
        }
        2 => t.filesz = 0,
        3 => {
            if p.offset <= len {
                t.filesz = len - p.offset + 1;
            }
        }
        _ => t.align = *rng.pick(&[0u64, 1, 4, 8, 3, 1 << 40]),
    }
    t
}

fn range_of(op: &Op) -> Option<(u64, u64)> {
    if let Some(s) = op.shdr_arg() {
        return Some((s.offset, s.size));
    }
    if let Some(p) = op.phdr_arg() {
        return Some((p.offset, p.filesz));
    }
    None
}

/// "Cache pressure" history: k distinct byte ranges are queried first (k is biased to sit
/// just below / at / above plausible capacity thresholds), then the multi-range accessors,
/// which load several ranges and only afterwards fetch them. A cache that forgets, evicts
/// or starts over at some fill level only shows under such a history.
fn pressure_ops(rng: &mut Rng, bytes: &[u8], m: &Model) -> Vec<OpRec> {
    let len = bytes.len() as u64;
    let cap = max_distinct(len);
    let thresholds = [
        3usize, 4, 5, 7, 8, 9, 15, 16, 17, 31, 32, 33, 47, 48, 49, 62, 63, 64, 65, 66, 95, 96,
        97, 99, 100, 101, 111, 112, 113, 126, 127, 128, 129, 130, 191, 192, 193, 254, 255, 256,
        257, 258, 511, 512, 513, 1000, 1023, 1024, 1025,
    ];
    // k is capped by the stream length (C08's fixed-overhead budget, see max_distinct)
    let usable: Vec<usize> = thresholds.iter().copied().filter(|t| *t <= cap).collect();
    let k = if rng.chance(2, 3) && !usable.is_empty() {
        // the larger thresholds are as likely as the small ones
        *rng.pick(&usable)
    } else {
        rng.urange(1, cap)
    };
    let mut ops: Vec<Op> = Vec::with_capacity(k + 16);
    let multis = [
        Op::SymbolTable,
        Op::DynSymTable,
        Op::SymVer,
        Op::ShdrsWithStrtab,
        Op::Dynamic,
    ];
    // sometimes prime with one multi-range accessor first (its ranges become old entries)
    if rng.chance(1, 3) {
        ops.push(rng.pick(&multis).clone());
    }
    let mut seen: HashSet<(u64, u64)> = HashSet::new();
    let mut i: u64 = 0;
    while seen.len() < k && i < 6 * k as u64 + 8 {
        i += 1;
        // real section ranges first, then synthetic in-file ranges
        let (off, size) = if (i as usize) <= m.shdrs.len() && rng.chance(1, 2) {
            let s = &m.shdrs[i as usize - 1];
            (s.offset, s.size)
        } else if len > 0 {
            let off = rng.below(len);
            (off, 1 + rng.below((len - off).min(if k > 200 { 200 } else { 24 })))
        } else {
            (0, 0)
        };
        if off.checked_add(size).map(|e| e > len).unwrap_or(true) {
            continue;
        }
        if seen.insert((off, size)) {
            ops.push(Op::SectionData(Shdr {
                typ: hdr::SHT_PROGBITS,
                offset: off,
                size,
                addralign: 1,
                ..Default::default()
            }));
        }
    }
    // the multi-range accessors, in seeded order, each possibly twice
    let mut order: Vec<Op> = multis.to_vec();
    for j in (1..order.len()).rev() {
        let x = rng.usize_below(j + 1);
        order.swap(j, x);
    }
    for o in order {
        ops.push(o.clone());
        if rng.chance(1, 3) {
            ops.push(o);
        }
    }
    // and a few of the early ranges again
    for _ in 0..rng.urange(0, 4) {
        if !ops.is_empty() {
            let o = ops[rng.usize_below(ops.len())].clone();
            ops.push(o);
        }
    }
    let _ = bytes;
    ops.into_iter()
        .enumerate()
        .map(|(i, op)| OpRec {
            id: (i + 1) as u32,
            op,
        })
        .collect()
}

/// Draw a history of stream ops for an image. `pressure_permille`: how often (per 1000)
/// the history is a cache-pressure history instead of a mixed one.
pub fn gen_ops(
    rng: &mut Rng,
    bytes: &[u8],
    m: &Model,
    max_ops: usize,
    pressure_permille: u64,
) -> Vec<OpRec> {
    if rng.below(1000) < pressure_permille {
        return pressure_ops(rng, bytes, m);
    }
    let len = bytes.len() as u64;
    let names = section_names(bytes, m);
    let n_ops = rng.urange(1, max_ops.max(1));
    let mut ops: Vec<Op> = Vec::with_capacity(n_ops);
    let mut ranges: HashSet<(u64, u64)> = HashSet::new();
    let globals = [
        Op::Segments,
        Op::SectionHeaders,
        Op::ShdrsWithStrtab,
        Op::SymbolTable,
        Op::DynSymTable,
        Op::Dynamic,
        Op::SymVer,
    ];
    let fabricated = Shdr {
        typ: hdr::SHT_PROGBITS,
        offset: 0,
        size: len.min(64),
        addralign: 1,
        ..Default::default()
    };
    while ops.len() < n_ops {
        // deliberate repetition: re-issue an earlier op with probability 1/2
        if !ops.is_empty() && rng.chance(1, 2) {
            let o = ops[rng.usize_below(ops.len())].clone();
            ops.push(o);
            continue;
        }
        let allow_new = ranges.len() < max_distinct(len);
        // an arithmetic twin of a range that was already asked for (1 in 12)
        if allow_new && rng.chance(1, 12) {
            let prior: Vec<&Op> = ops.iter().filter(|o| range_of(o).is_some()).collect();
            if !prior.is_empty() {
                let base = (*rng.pick(&prior)).clone();
                let (o, z) = range_of(&base).unwrap();
                let (o2, z2) = alias_twin(rng, o, z);
                let twin = match &base {
                    Op::SegNotes(p) => {
                        let mut p2 = *p;
                        p2.offset = o2;
                        p2.filesz = z2;
                        Op::SegNotes(p2)
                    }
                    other => {
                        let mut s2 = *other.shdr_arg().unwrap();
                        s2.offset = o2;
                        s2.size = z2;
                        // section_data is the accessor whose success must coincide exactly
                        if rng.chance(2, 3) {
                            Op::SectionData(s2)
                        } else {
                            match other {
                                Op::AsStrtab(_) => Op::AsStrtab(s2),
                                Op::AsRels(_) => Op::AsRels(s2),
                                Op::AsRelas(_) => Op::AsRelas(s2),
                                Op::AsNotes(_) => Op::AsNotes(s2),
                                _ => Op::SectionData(s2),
                            }
                        }
                    }
                };
                if let Some(r) = range_of(&twin) {
                    ranges.insert(r);
                }
                ops.push(twin);
                continue;
            }
        }
        let c = rng.below(20);
        let op = match c {
            0..=5 => rng.pick(&globals).clone(),
            6..=7 => {
                // name lookup: present, absent, prefix/suffix of present, empty
                let n = if rng.chance(1, 16) {
                    let mut long = String::from(".long_");
                    let want = *rng.pick(&[33usize, 65, 130, 257, 1025]);
                    while long.len() < want {
                        long.push('x');
                    }
                    long
                } else if rng.chance(1, 16) {
                    (*rng.pick(&ODD_NAMES)).to_string()
                } else if rng.chance(1, 5) {
                    (*rng.pick(&COMMON_NAMES)).to_string()
                } else if names.is_empty() || rng.chance(1, 4) {
                    (*rng.pick(&["", ".absent", ".text", ".symtab", ".shstrtab"])).to_string()
                } else {
                    let n = rng.pick(&names).clone();
                    match rng.below(4) {
                        0 if n.chars().count() > 1 => {
                            let mut c: Vec<char> = n.chars().collect();
                            c.pop();
                            c.into_iter().collect()
                        }
                        1 if n.chars().count() > 1 => n.chars().skip(1).collect(),
                        _ => n,
                    }
                };
                Op::ByName(n)
            }
            8..=15 => {
                let base = if m.shdrs.is_empty() {
                    fabricated
                } else {
                    *rng.pick(&m.shdrs)
                };
                let s = if rng.chance(2, 5) {
                    synth_shdr(rng, &base, len)
                } else {
                    base
                };
                if rng.chance(1, 2) {
                    Op::SectionData(s)
                } else if let Some(v) = typed_view(&s) {
                    if rng.chance(1, 8) {
                        // deliberately mismatching view
                        Op::AsNotes(s)
                    } else {
                        v
                    }
                } else {
                    match rng.below(16) {
                        0 => Op::AsStrtab(s),
                        1 => Op::AsNotes(s),
                        2 => Op::AsRels(s),
                        3 => Op::AsRelas(s),
                        _ => Op::SectionData(s),
                    }
                }
            }
            _ => {
                if m.phdrs.is_empty() {
                    rng.pick(&globals).clone()
                } else {
                    // prefer PT_NOTE
                    let notes: Vec<&Phdr> =
                        m.phdrs.iter().filter(|p| p.typ == hdr::PT_NOTE).collect();
                    let base = if !notes.is_empty() && rng.chance(3, 4) {
                        **rng.pick(&notes)
                    } else {
                        *rng.pick(&m.phdrs)
                    };
                    let p = if rng.chance(1, 3) {
                        synth_phdr(rng, &base, len)
                    } else {
                        base
                    };
                    Op::SegNotes(p)
                }
            }
        };
        if let Some(r) = range_of(&op) {
            if !ranges.contains(&r) {
                if !allow_new {
                    continue;
                }
                ranges.insert(r);
            }
        }
        ops.push(op);
    }
    ops.into_iter()
        .enumerate()
        .map(|(i, op)| OpRec {
            id: (i + 1) as u32,
            op,
        })
        .collect()
}

/// The canonical full query set over an image (ObsAll): every op, for every header index.
/// `stream_too` = restrict to ops that exist on both parsers.
pub fn full_query_set(bytes: &[u8], m: &Model, slice_extras: bool) -> Vec<OpRec> {
    let mut ops: Vec<Op> = vec![
        Op::Segments,
        Op::SectionHeaders,
        Op::ShdrsWithStrtab,
        Op::SymbolTable,
        Op::DynSymTable,
        Op::Dynamic,
        Op::SymVer,
    ];
    if slice_extras {
        ops.push(Op::FindCommon);
    }
    let names = section_names(bytes, m);
    let mut seen = HashSet::new();
    for n in names.iter().take(6) {
        if seen.insert(n.clone()) {
            ops.push(Op::ByName(n.clone()));
        }
    }
    ops.push(Op::ByName(".absent".into()));
    ops.push(Op::ByName(String::new()));
    // absent names longer than any plausible small-buffer optimisation
    for n in [33usize, 65, 130, 257, 1025] {
        let mut long = String::from(".long_");
        while long.len() < n {
            long.push('x');
        }
        ops.push(Op::ByName(long));
    }
    for n in ODD_NAMES.iter() {
        ops.push(Op::ByName((*n).to_string()));
    }
    // names real programs ask for, whether or not this file has them
    for n in COMMON_NAMES.iter() {
        if seen.insert((*n).to_string()) {
            ops.push(Op::ByName((*n).to_string()));
        }
    }
    let max_hdrs = 96;
    for s in m.shdrs.iter().take(max_hdrs) {
        ops.push(Op::SectionData(*s));
        ops.push(Op::AsStrtab(*s));
        ops.push(Op::AsRels(*s));
        ops.push(Op::AsRelas(*s));
        ops.push(Op::AsNotes(*s));
    }
    for p in m.phdrs.iter().take(max_hdrs) {
        ops.push(Op::SegNotes(*p));
        if slice_extras {
            ops.push(Op::SegmentData(*p));
        }
    }
    ops.into_iter()
        .enumerate()
        .map(|(i, op)| OpRec {
            id: (i + 1) as u32,
            op,
        })
        .collect()
}

#[cfg(feature = "stream")]
pub fn draw_profile(rng: &mut Rng) -> crate::reader::Profile {
    use crate::reader::Profile;
    match rng.below(10) {
        0..=1 => Profile::FULL,
        2..=4 => Profile {
            short_p: *rng.pick(&[32u16, 96, 200, 256]),
            short_max: *rng.pick(&[1u32, 2, 3, 7, 16, 64, 512, 4096, 8192]),
            eintr_p: 0,
        },
        5 => Profile {
            short_p: 256,
            short_max: 1,
            eintr_p: 0,
        },
        6..=7 => Profile {
            short_p: 0,
            short_max: 1,
            eintr_p: *rng.pick(&[16u16, 51, 100]),
        },
        _ => Profile {
            short_p: *rng.pick(&[64u16, 160, 256]),
            short_max: *rng.pick(&[1u32, 3, 7, 31, 1024, 4096]),
            eintr_p: *rng.pick(&[16u16, 51, 90]),
        },
    }
}
