//! C06 — the slice parser performs zero heap allocations.
//!
//! ObsAll(ElfBytes, image) over the common image distribution, with the non-allocating
//! FNV sink and SimAlloc in deny mode for the Slice scope: an allocation failure is armed
//! at every allocator call site; the property holds iff it never gets an opportunity to
//! fire. Cross-check: the digest equals the digest of the same run with the scope Off.

use crate::alloc;
use crate::equiv::{prop_id, Violation};
use crate::exec::*;
use crate::gen::{self, Bias, Samples};
use crate::hdr::Model;
use crate::json::J;
use crate::obs::{Caps, FnvSink, Sink};
use crate::ops::OpRec;
use crate::report::Report;
use crate::rng::{fnv1a, mix, Rng, FNV_INIT};
use crate::scen::{caps_for, Scenario, Spec};
use crate::with_spec;
use crate::workload;

/// run indices below this are huge-table images (std-side batch only)
pub const HUGE_RUNS: u64 = 12;

pub struct NoAllocResult {
    pub digest: u64,
    /// first op (index into ops, +1; 0 = open) during which the allocator was called
    pub first_alloc_at: Option<(usize, u64, usize)>,
    pub calls: u64,
    pub panicking_calls: u64,
    pub ok_answers: u64,
    pub tags_sig: u64,
}

fn obs_all_digest<E: elf::endian::EndianParse>(
    bytes: &[u8],
    ops: &[OpRec],
    caps: Caps,
    scope: u8,
) -> NoAllocResult {
    let ctx = Ctx {
        call_scope: scope,
        drain_scope: scope,
        caps,
    };
    let mut k = FnvSink::new();
    let mut res = NoAllocResult {
        digest: 0,
        first_alloc_at: None,
        calls: 0,
        panicking_calls: 0,
        ok_answers: 0,
        tags_sig: FNV_INIT,
    };
    let mut note = |res: &mut NoAllocResult, idx: usize, tag: Tag| {
        let (n, first) = alloc::slice_stats();
        if tag.is_panic() {
            // the panic runtime formats and boxes its payload: not the parser allocating
            res.panicking_calls += 1;
        } else if n > 0 && res.first_alloc_at.is_none() {
            res.first_alloc_at = Some((idx, n, first));
        }
        res.calls += 1;
        if tag == Tag::Ok {
            res.ok_answers += 1;
        }
        res.tags_sig = fnv1a(res.tags_sig, &[tag as u8]);
    };
    alloc::slice_begin();
    let (tag, eb) = slice_open::<E, _>(&ctx, bytes, &mut k);
    k.u8(tag as u8);
    note(&mut res, 0, tag);
    if let Some(eb) = eb {
        // the same handle answers the whole query set twice, then a run of by-name
        // lookups: anything built lazily on the n-th use of a handle is met here
        for _pass in 0..2 {
            for (i, o) in ops.iter().enumerate() {
                alloc::slice_begin();
                let tag = slice_op(&ctx, &eb, &o.op, &mut k);
                k.u8(tag as u8);
                note(&mut res, i + 1, tag);
            }
        }
        let by_name: Vec<usize> = (0..ops.len())
            .filter(|i| matches!(ops[*i].op, crate::ops::Op::ByName(_)))
            .collect();
        if !by_name.is_empty() {
            for j in 0..24 {
                let i = by_name[j % by_name.len()];
                alloc::slice_begin();
                let tag = slice_op(&ctx, &eb, &ops[i].op, &mut k);
                k.u8(tag as u8);
                note(&mut res, i + 1, tag);
            }
        }
    }
    res.digest = k.0;
    res
}

pub fn build_scenario(seed: u64, run: u64, tier: &str, samples: &Samples) -> (Scenario, Caps) {
    let thorough = tier == "thorough";
    let run_seed = mix(mix(seed, prop_id("C06")), run);
    let mut g = Rng::sub(run_seed, 1);
    let mut o = Rng::sub(run_seed, 2);
    #[allow(unused_mut)]
    let mut img = gen::draw_image(&mut g, samples, Bias::Slice, thorough);
    // the first HUGE_RUNS run indices of the std-side batch are huge-table images
    // (>= 0xff00 real section headers / >= 0xffff program headers, several MiB, every
    // (class, order, way of naming .shstrtab) combination): whatever a handle builds only
    // for tables beyond the SHN_LORESERVE / PN_XNUM escapes is met here
    #[cfg(feature = "stream")]
    let huge = run < HUGE_RUNS;
    #[cfg(not(feature = "stream"))]
    let huge = false;
    #[cfg(feature = "stream")]
    if huge {
        let (b, r) = crate::sweep::huge_image(&mut g, run);
        img.bytes = b;
        img.recipe = r;
        img.class_sig = 0x4000_0000 | run;
    }
    let model = Model::of(&img.bytes);
    let mut ops = workload::full_query_set(&img.bytes, &model, true);
    if huge {
        ops.truncate(24);
        let n = ops.len() as u32;
        for (j, name) in [".first", ".other", ".aa", ".xx", ".absent"].iter().enumerate() {
            ops.push(OpRec {
                id: n + 1 + j as u32,
                op: crate::ops::Op::ByName((*name).to_string()),
            });
        }
    }
    let caps = caps_for(&img.bytes, &model);
    let spec = workload::draw_spec(&mut o, &img.bytes);
    let mut recipe = img.recipe.clone();
    recipe.set("class_sig", J::u(img.class_sig));
    let sc = Scenario {
        prop: "C06".into(),
        seed,
        run,
        tier: tier.to_string(),
        spec,
        durable_len: img.bytes.len(),
        image: img.bytes,
        suffix: Vec::new(),
        ops,
        #[cfg(feature = "stream")]
        reader: crate::reader::ReaderCfg::well_behaved(),
        epilogue: false,
        recipe,
        mode: "deny-alloc".into(),
    };
    (sc, caps)
}

pub fn judge_with(sc: &Scenario, caps: Caps) -> (Option<Violation>, NoAllocResult) {
    let bytes = sc.visible();
    let deny = with_spec!(sc.spec, obs_all_digest(&bytes, &sc.ops, caps, alloc::SLICE));
    let free = with_spec!(sc.spec, obs_all_digest(&bytes, &sc.ops, caps, alloc::OFF));
    if let Some((idx, n, first)) = deny.first_alloc_at {
        let op = if idx == 0 {
            "open"
        } else {
            sc.ops[idx - 1].op.name()
        };
        return (
            Some(Violation {
                prop: "C06".into(),
                clause: "allocated".into(),
                op: op.into(),
                at_op_id: if idx == 0 { 0 } else { sc.ops[idx - 1].id },
                detail: format!(
                    "the slice parser called the allocator {} time(s) during this call (first request {} bytes)",
                    n, first
                ),
            }),
            deny,
        );
    }
    if deny.digest != free.digest && deny.panicking_calls == 0 && free.panicking_calls == 0 {
        return (
            Some(Violation {
                prop: "C06".into(),
                clause: "deny-mode-perturbs".into(),
                op: "obs_all".into(),
                at_op_id: 0,
                detail: "answers differ between deny-mode and free-mode allocator".into(),
            }),
            deny,
        );
    }
    (None, deny)
}

pub fn judge(sc: &Scenario) -> Option<Violation> {
    let model = Model::of(&sc.image);
    let caps = caps_for(&sc.image, &model);
    judge_with(sc, caps).0
}

pub fn run_one(
    seed: u64,
    run: u64,
    tier: &str,
    samples: &Samples,
    rep: &mut Report,
) -> Option<(Scenario, Violation)> {
    let (sc, caps) = build_scenario(seed, run, tier, samples);
    let (v, res) = judge_with(&sc, caps);
    rep.evaluations += 1;
    rep.add("api_calls_under_deny_mode", res.calls);
    rep.add("panicking_calls_skipped", res.panicking_calls);
    rep.add("ok_answers", res.ok_answers);
    if res.ok_answers > 1 {
        let mut sig = FNV_INIT;
        sig = fnv1a(sig, &sc.recipe.gu("class_sig").to_le_bytes());
        sig = fnv1a(sig, &[sc.spec as u8]);
        sig = fnv1a(sig, &res.tags_sig.to_le_bytes());
        rep.sigs.push(sig);
    }
    if run % 4999 == 0 {
        rep.sample(
            J::obj()
                .with("image", sc.recipe.clone())
                .with("endian_spec", J::s(sc.spec.name()))
                .with("api_calls", J::u(res.calls))
                .with("ok_answers", J::u(res.ok_answers))
                .with("allocator_calls_in_slice_scope", J::u(0))
                .with("digest", J::Str(format!("{:016x}", res.digest))),
        );
    }
    v.map(|v| (sc, v))
}

#[allow(dead_code)]
fn _spec_used(_: Spec) {}
