//! C07 (stream ≡ slice) and C08 (memory / I/O bounded by the stream): scenario
//! construction and oracles. Both use the same executor; the oracles differ.

use crate::exec::Tag;
use crate::gen::{self, Bias, Samples};
use crate::hdr::{self, DesKind, Model, RangeSet};
use crate::ops::Op;
use crate::reader::ReaderCfg;
use crate::rng::{mix, Rng};
use crate::scen::*;
use crate::with_spec;
use crate::workload;

#[derive(Clone, Debug)]
pub struct Violation {
    pub prop: String,
    pub clause: String,
    /// name of the op at which the oracle fired
    pub op: String,
    /// scenario op id (0 = open)
    pub at_op_id: u32,
    pub detail: String,
}

impl Violation {
    pub fn key(&self) -> String {
        format!("{}/{}/{}", self.prop, self.clause, self.op)
    }
}

/// Per-run facts for evidence and signatures.
#[derive(Clone, Debug, Default)]
pub struct RunFacts {
    pub opened: bool,
    pub ok_answers: u32,
    pub nontrivial: bool,
    pub signature: u64,
    pub io_events: u64,
    pub probes: Vec<(&'static str, u64)>,
    pub counters: crate::reader::FaultCounters,
    pub max_alloc_over_len_milli: u64,
    pub alloc_calls: u64,
    pub drain_panics: u64,
    pub scoped_out: u64,
    pub compared: u64,
    pub op_grid: [[u32; 5]; 17],
}

pub fn build_scenario(
    prop: &str,
    seed: u64,
    run: u64,
    tier: &str,
    samples: &Samples,
) -> Scenario {
    let thorough = tier == "thorough";
    let run_seed = mix(mix(seed, prop_id(prop)), run);
    let mut g = Rng::sub(run_seed, 1);
    let mut o = Rng::sub(run_seed, 2);
    let mut io = Rng::sub(run_seed, 3);
    let bias = if prop == "C08" { Bias::Lies } else { Bias::Equiv };
    let img = gen::draw_image(&mut g, samples, bias, thorough);
    let model = Model::of(&img.bytes);
    let spec = workload::draw_spec(&mut o, &img.bytes);
    let max_ops = if thorough { 64 } else { 24 };
    let ops = workload::gen_ops(&mut o, &img.bytes, &model, max_ops, 80);
    let profile = workload::draw_profile(&mut io);
    let len = img.bytes.len() as u64;
    // C08 only: some streams do not support SeekFrom::End (the length probe fails); the
    // bounds must not silently disappear with it
    let overrides = if prop == "C08" && io.chance(1, 16) {
        vec![crate::reader::Override {
            op_id: 0,
            call: 0,
            fault: crate::reader::Fault::Fail {
                kind: std::io::ErrorKind::Other,
                sticky: false,
            },
        }]
    } else if prop == "C08" && io.chance(1, 8) {
        // the bounds and the laziness must also hold on the error paths: a few transient
        // failures at seeded calls (the oracle is unchanged; C17 judges the answers)
        let n = io.urange(1, 2);
        (0..n)
            .map(|_| crate::reader::Override {
                op_id: io.below(ops.len() as u64 + 1) as u32,
                call: io.below(6) as u32,
                fault: match io.below(3) {
                    0 => crate::reader::Fault::Fail {
                        kind: std::io::ErrorKind::Other,
                        sticky: false,
                    },
                    1 => crate::reader::Fault::PartialThenFail {
                        k: io.range(1, 40) as u32,
                        kind: std::io::ErrorKind::TimedOut,
                    },
                    _ => crate::reader::Fault::EofEarly { sticky: false },
                },
            })
            .collect()
    } else {
        Vec::new()
    };
    let reader = ReaderCfg {
        run_seed,
        profile,
        init_pos: io.below(len + 6),
        overrides,
        heal_at_epilogue: false,
            clean_after_failure: false,
    };
    let mut recipe = img.recipe.clone();
    recipe.set("class_sig", crate::json::J::u(img.class_sig));
    Scenario {
        prop: prop.to_string(),
        seed,
        run,
        tier: tier.to_string(),
        spec,
        durable_len: img.bytes.len(),
        image: img.bytes,
        suffix: Vec::new(),
        ops,
        reader,
        epilogue: false,
        recipe,
        mode: "history".into(),
    }
}

pub fn prop_id(p: &str) -> u64 {
    match p {
        "C06" => 6,
        "C07" => 7,
        "C08" => 8,
        "C17" => 17,
        "C18" => 18,
        _ => 99,
    }
}

/// Sections whose bytes an op designates (for the SHF_COMPRESSED scoping of C07).
fn designated_sections(m: &Model, op: &Op) -> Vec<hdr::Shdr> {
    match op {
        Op::SectionData(s) | Op::AsStrtab(s) | Op::AsRels(s) | Op::AsRelas(s) | Op::AsNotes(s) => {
            vec![*s]
        }
        Op::ShdrsWithStrtab | Op::ByName(_) => m.designated_sections(DesKind::ShStrTab),
        Op::SymbolTable => m.designated_sections(DesKind::SymTab),
        Op::DynSymTable => m.designated_sections(DesKind::DynSym),
        Op::Dynamic => m.designated_sections(DesKind::Dynamic),
        Op::SymVer => m.designated_sections(DesKind::SymVer),
        _ => Vec::new(),
    }
}

fn exact_iff(op: &Op) -> bool {
    matches!(
        op,
        Op::SectionData(_) | Op::SymbolTable | Op::DynSymTable | Op::SymVer | Op::SegNotes(_)
    )
}

/// The call returned `Ok(..)` (a panic while draining the returned view is not the call's).
pub fn succeeded(t: Tag) -> bool {
    matches!(t, Tag::Ok | Tag::PanicDrain)
}

fn first_diff(a: &[u8], b: &[u8]) -> usize {
    a.iter()
        .zip(b.iter())
        .position(|(x, y)| x != y)
        .unwrap_or(a.len().min(b.len()))
}

pub struct EquivRun {
    pub stream: StreamRun,
    pub slice: Vec<OpOut>,
    pub model: Model,
}

fn run_both<E: elf::endian::EndianParse>(sc: &Scenario) -> EquivRun {
    let bytes = sc.visible();
    let model = Model::of(&bytes);
    let caps = caps_for(&bytes, &model);
    let stream = run_stream::<E>(sc, caps);
    let slice = run_slice::<E>(&bytes, &sc.ops, caps);
    EquivRun {
        stream,
        slice,
        model,
    }
}

pub fn execute(sc: &Scenario) -> EquivRun {
    with_spec!(sc.spec, run_both(sc))
}

/// C07 oracle.
pub fn check_c07(sc: &Scenario, r: &EquivRun, facts: &mut RunFacts) -> Option<Violation> {
    let v = |clause: &str, op: &str, id: u32, detail: String| {
        Some(Violation {
            prop: "C07".into(),
            clause: clause.into(),
            op: op.into(),
            at_op_id: id,
            detail,
        })
    };
    let s_open = &r.stream.steps[0].out;
    let b_open = &r.slice[0];
    // clause 1: open succeeds exactly when the slice open succeeds; identical headers
    let s_ok = succeeded(s_open.tag);
    let b_ok = succeeded(b_open.tag);
    if s_ok != b_ok {
        return v(
            "open-iff",
            "open",
            0,
            format!(
                "stream open {} but slice open {}",
                s_open.tag.name(),
                b_open.tag.name()
            ),
        );
    }
    if s_ok && b_ok && (s_open.tag != b_open.tag || s_open.obs != b_open.obs) {
        return v(
            "open-content",
            "open",
            0,
            format!(
                "ehdr/shdrs/phdrs differ ({} vs {}) at observation byte {}",
                s_open.tag.name(),
                b_open.tag.name(),
                first_diff(&s_open.obs, &b_open.obs)
            ),
        );
    }
    if !(s_ok && b_ok) {
        return None;
    }
    // clause 3 scoping: present-but-empty section header table
    if r.model.present_but_empty_shdrs {
        facts.scoped_out += r.stream.steps.len() as u64 - 1;
        return None;
    }
    for st in r.stream.steps.iter().skip(1) {
        let op = &sc.ops[st.op_index - 1].op;
        let b = &r.slice[st.op_index];
        let s = &st.out;
        if designated_sections(&r.model, op)
            .iter()
            .any(|h| h.flags & hdr::SHF_COMPRESSED != 0)
        {
            facts.scoped_out += 1;
            continue;
        }
        facts.compared += 1;
        let s_ok = succeeded(s.tag);
        let b_ok = succeeded(b.tag);
        if b_ok && !s_ok {
            return v(
                "ok-implies-ok",
                op.name(),
                st.id,
                format!("slice query Ok but stream query {}", s.tag.name()),
            );
        }
        if exact_iff(op) && s_ok && !b_ok {
            return v(
                "iff",
                op.name(),
                st.id,
                format!("stream query Ok but slice query {}", b.tag.name()),
            );
        }
        if s_ok && b_ok && (s.tag != b.tag || s.obs != b.obs) {
            return v(
                "content",
                op.name(),
                st.id,
                format!(
                    "contents differ ({} vs {}) at observation byte {} (stream {} bytes, slice {} bytes)",
                    s.tag.name(),
                    b.tag.name(),
                    first_diff(&s.obs, &b.obs),
                    s.obs.len(),
                    b.obs.len()
                ),
            );
        }
    }
    None
}

/// Designated byte set of an op for C08's lazy-I/O clause.
fn designated_set(m: &Model, op: &Op) -> RangeSet {
    let mut rs = RangeSet::new();
    match op {
        Op::Open => return m.open_set.clone(),
        Op::Segments | Op::SectionHeaders => {}
        Op::SectionData(s) | Op::AsStrtab(s) | Op::AsRels(s) | Op::AsRelas(s) | Op::AsNotes(s) => {
            rs.add_clipped(s.offset, s.size, m.len)
        }
        Op::ShdrsWithStrtab | Op::ByName(_) => return m.designated_set(DesKind::ShStrTab),
        Op::SymbolTable => return m.designated_set(DesKind::SymTab),
        Op::DynSymTable => return m.designated_set(DesKind::DynSym),
        Op::Dynamic => return m.designated_set(DesKind::Dynamic),
        Op::SymVer => return m.designated_set(DesKind::SymVer),
        Op::SegNotes(p) => rs.add_clipped(p.offset, p.filesz, m.len),
        Op::SegmentData(_) | Op::FindCommon => {}
    }
    rs
}

/// For ops with a single unconditional designated range: does the header claim a range
/// that ends beyond the stream (or overflows)?
fn oversized_claim(m: &Model, op: &Op) -> bool {
    // an empty range is not an oversized request, wherever it points
    let beyond = |off: u64, size: u64| {
        size > 0
            && match off.checked_add(size) {
                None => true,
                Some(end) => end > m.len,
            }
    };
    match op {
        Op::SectionData(s) => s.typ != hdr::SHT_NOBITS && beyond(s.offset, s.size),
        Op::AsStrtab(s) => s.typ == hdr::SHT_STRTAB && beyond(s.offset, s.size),
        Op::AsRels(s) => s.typ == hdr::SHT_REL && beyond(s.offset, s.size),
        Op::AsRelas(s) => s.typ == hdr::SHT_RELA && beyond(s.offset, s.size),
        Op::AsNotes(s) => s.typ == hdr::SHT_NOTE && beyond(s.offset, s.size),
        Op::SegNotes(p) => p.typ == hdr::PT_NOTE && beyond(p.offset, p.filesz),
        Op::ShdrsWithStrtab => {
            if m.shdrs.is_empty() {
                return false;
            }
            match m.shstrndx() {
                Some(i) => match m.shdrs.get(i) {
                    Some(s) => beyond(s.offset, s.size),
                    None => false,
                },
                None => false,
            }
        }
        _ => false,
    }
}

/// C08 oracle.
pub fn check_c08(sc: &Scenario, r: &EquivRun, facts: &mut RunFacts) -> Option<Violation> {
    let v = |clause: &str, op: &str, id: u32, detail: String| {
        Some(Violation {
            prop: "C08".into(),
            clause: clause.into(),
            op: op.into(),
            at_op_id: id,
            detail,
        })
    };
    let len = r.stream.stream_len;
    // After open, ranges are designated by the stream's *own* view of the header tables
    // (whether that view is right is C07's subject); open itself is judged by the model.
    let mut own = r.model.clone();
    if r.stream.opened {
        own.shdrs = r.stream.own_shdrs.clone();
        own.phdrs = r.stream.own_phdrs.clone();
    }
    for st in r.stream.steps.iter() {
        let open_op = Op::Open;
        let op = if st.op_index == 0 {
            &open_op
        } else {
            &sc.ops[st.op_index - 1].op
        };
        // 1. never panics (parser-call phase)
        if st.out.tag == Tag::PanicCall {
            return v(
                "panic",
                op.name(),
                st.id,
                "the stream parser panicked inside the call".into(),
            );
        }
        if st.out.tag == Tag::StepCap {
            return v(
                "io-unbounded",
                op.name(),
                st.id,
                format!(
                    "more than {} I/O calls in one query on a {}-byte stream",
                    crate::reader::STEP_CAP_PER_OP as u64 + 16 * len,
                    len
                ),
            );
        }
        if st.out.tag == Tag::PanicDrain {
            facts.drain_panics += 1;
        }
        // 2. allocation bound
        facts.alloc_calls += st.alloc.count;
        if len > 0 {
            let milli = (st.alloc.max as u64).saturating_mul(1000) / len.max(1);
            if st.alloc.max as u64 > ALLOC_SLACK && milli > facts.max_alloc_over_len_milli {
                facts.max_alloc_over_len_milli = milli;
            }
        }
        if st.alloc.over > 0 {
            return v(
                "alloc-bound",
                op.name(),
                st.id,
                format!(
                    "single allocation of {} bytes on a {}-byte stream (bound 4*len+16384 = {})",
                    st.alloc.over_first,
                    len,
                    alloc_bound(len)
                ),
            );
        }
        // 3. oversized claims are errors
        if st.op_index > 0 && oversized_claim(&own, op) {
            push_probe(facts, "oversize_claim_seen", 1);
            if succeeded(st.out.tag) {
                return v(
                    "oversize-not-error",
                    op.name(),
                    st.id,
                    "header claims a range ending beyond the stream but the query succeeded".into(),
                );
            } else {
                push_probe(facts, "oversize_claim_rejected", 1);
            }
        }
        // 4. lazy I/O: delivered bytes ⊆ designated set
        if !st.delivered.is_empty() {
            let des = designated_set(if st.op_index == 0 { &r.model } else { &own }, op);
            for &(a, b) in st.delivered.iter() {
                if let Some((x, y)) = des.first_uncovered(a, b) {
                    return v(
                        "io-not-designated",
                        op.name(),
                        st.id,
                        format!(
                            "read bytes [{}, {}) which the query does not designate (designated: {:?})",
                            x, y, des.r
                        ),
                    );
                }
            }
        }
    }
    None
}

pub fn push_probe(f: &mut RunFacts, name: &'static str, n: u64) {
    for p in f.probes.iter_mut() {
        if p.0 == name {
            p.1 += n;
            return;
        }
    }
    f.probes.push((name, n));
}

/// Facts for evidence: signature, non-triviality, probes.
pub fn collect_facts(sc: &Scenario, r: &EquivRun, facts: &mut RunFacts) {
    use crate::rng::{fnv1a, FNV_INIT};
    facts.opened = r.stream.opened;
    facts.io_events = r.stream.total_events;
    facts.counters = r.stream.counters;
    let mut sig = FNV_INIT;
    let class_sig = sc.recipe.gu("class_sig");
    sig = fnv1a(sig, &class_sig.to_le_bytes());
    sig = fnv1a(sig, &[sc.spec as u8]);
    let p = &sc.reader.profile;
    sig = fnv1a(
        sig,
        &[
            (p.short_p > 0) as u8,
            (p.short_p >= 256) as u8,
            (p.eintr_p > 0) as u8,
            (p.short_max == 1) as u8,
        ],
    );
    let mut ranges: Vec<(u64, u64)> = Vec::new();
    for st in r.stream.steps.iter() {
        let kind = if st.op_index == 0 {
            0
        } else {
            sc.ops[st.op_index - 1].op.kind_id()
        };
        sig = fnv1a(sig, &[kind, st.out.tag as u8, st.epilogue as u8]);
        facts.op_grid[kind as usize % 17][st.out.tag as usize % 5] += 1;
        if st.op_index > 0 && st.out.tag == Tag::Ok && st.out.obs.len() > 2 {
            facts.ok_answers += 1;
        }
        if st.op_index > 0 && st.io_events == 0 && st.out.tag == Tag::Ok {
            let op = &sc.ops[st.op_index - 1].op;
            if !matches!(op, Op::Segments | Op::SectionHeaders) && st.out.obs.len() > 10 {
                push_probe(facts, "cache_hit", 1);
            }
        }
        if st.op_index > 0 {
            let op = &sc.ops[st.op_index - 1].op;
            let rg = op
                .shdr_arg()
                .map(|s| (s.offset, s.size))
                .or_else(|| op.phdr_arg().map(|p| (p.offset, p.filesz)));
            if let Some((o, s)) = rg {
                if st.out.tag == Tag::Ok {
                    if s == 0 {
                        push_probe(facts, "zero_len_range", 1);
                    }
                    for &(o2, s2) in ranges.iter() {
                        if o2 == o && s2 != s {
                            push_probe(facts, "shared_start", 1);
                        }
                        if o2.wrapping_add(s2) == o.wrapping_add(s) && o2 != o {
                            push_probe(facts, "shared_end", 1);
                        }
                    }
                    if !ranges.contains(&(o, s)) {
                        ranges.push((o, s));
                    }
                }
            }
        }
    }
    if r.stream.opened {
        push_probe(facts, "open_ok", 1);
        if let Some(e) = r.model.ehdr {
            if e.e_shoff != 0 && e.e_shnum == 0 {
                push_probe(facts, "xnum_shnum", 1);
            }
            if e.e_phoff != 0 && e.e_phnum == hdr::PN_XNUM {
                push_probe(facts, "xnum_phnum", 1);
            }
            if e.e_shstrndx == hdr::SHN_XINDEX && !r.model.shdrs.is_empty() {
                push_probe(facts, "xindex_shstrndx", 1);
            }
        }
    } else {
        push_probe(facts, "open_err", 1);
    }
    if r.stream.counters.short_reads > 0 {
        push_probe(facts, "short_read_fired", r.stream.counters.short_reads);
    }
    if r.stream.counters.eintr > 0 {
        push_probe(facts, "eintr_fired", r.stream.counters.eintr);
    }
    facts.signature = sig;
    facts.nontrivial = facts.opened && facts.ok_answers > 0;
}
