//! Process model: a supervisor partitions run indices over single-threaded worker
//! processes; run r depends only on (seed, property, r). Workers stream JSON lines;
//! the supervisor merges commutatively, watches for hangs and aborts, writes replay files
//! and the evidence file.

use crate::equiv::Violation;
use crate::gen::Samples;
use crate::json::{self, J};
use crate::minimize::Minimizer;
use crate::props;
use crate::report::Report;
use crate::scen::Scenario;
use std::collections::HashSet;
use std::io::{BufRead, BufReader, Write};
use std::os::unix::fs::FileExt;
use std::os::unix::io::AsRawFd;
use std::os::unix::process::ExitStatusExt;
use std::process::{Child, Command, Stdio};
use std::sync::atomic::{AtomicU64, Ordering::Relaxed};
use std::sync::mpsc;
use std::time::{Duration, Instant};

pub fn verif_root() -> String {
    std::env::var("ELFSIM_VERIF").unwrap_or_else(|_| "/verif".to_string())
}

pub fn seed_from_env() -> u64 {
    std::env::var("VERIF_SEED")
        .ok()
        .and_then(|s| s.trim().parse::<u64>().ok())
        .unwrap_or(1)
}

// ---------------------------------------------------------------------------------
// worker
// ---------------------------------------------------------------------------------

static HEARTBEAT: AtomicU64 = AtomicU64::new(0);
thread_local! {
    static PROGRESS: std::cell::RefCell<Option<std::fs::File>> = std::cell::RefCell::new(None);
}

fn write_progress(run: u64) {
    let hb = HEARTBEAT.fetch_add(1, Relaxed) + 1;
    PROGRESS.with(|p| {
        if let Some(f) = p.borrow().as_ref() {
            let mut buf = [0u8; 16];
            buf[..8].copy_from_slice(&run.to_le_bytes());
            buf[8..].copy_from_slice(&hb.to_le_bytes());
            let _ = f.write_at(&buf, 0);
        }
    });
}

pub fn silence_panics() {
    if std::env::var("ELFSIM_SHOW_PANICS").is_ok() {
        return;
    }
    std::panic::set_hook(Box::new(|_| {}));
}

pub struct WorkerArgs {
    pub prop: String,
    pub tier: String,
    pub seed: u64,
    pub start: u64,
    pub end: u64,
    pub step: u64,
    pub workdir: String,
    pub wid: u32,
}

pub fn replay_json(sc: &Scenario, v: &Violation, minimised: bool, steps_used: u32) -> J {
    let mut j = sc.to_json();
    j.set(
        "expect",
        J::obj()
            .with("property", J::s(&v.prop))
            .with("clause", J::s(&v.clause))
            .with("op", J::s(&v.op))
            .with("at_op_id", J::u(v.at_op_id as u64))
            .with("detail", J::s(&v.detail)),
    );
    j.set("minimised", J::Bool(minimised));
    j.set("minimisation_reexecutions", J::u(steps_used as u64));
    j
}

pub fn worker_main(a: WorkerArgs) -> i32 {
    silence_panics();
    let samples = Samples::load();
    let budget = props::budget(&a.prop, &a.tier, &samples);
    // progress + abort-record files
    let prog_path = format!("{}/w{}.progress", a.workdir, a.wid);
    let abort_path = format!("{}/w{}.abort", a.workdir, a.wid);
    let sig_path = format!("{}/w{}.sigs", a.workdir, a.wid);
    let stop_path = format!("{}/STOP", a.workdir);
    if let Ok(f) = std::fs::OpenOptions::new()
        .create(true)
        .write(true)
        .truncate(false)
        .open(&prog_path)
    {
        PROGRESS.with(|p| *p.borrow_mut() = Some(f));
    }
    let abort_file = std::fs::OpenOptions::new()
        .create(true)
        .append(true)
        .open(&abort_path)
        .ok();
    if let Some(f) = abort_file.as_ref() {
        crate::alloc::set_abort_fd(f.as_raw_fd());
    }
    let mut sig_file = std::fs::OpenOptions::new()
        .create(true)
        .append(true)
        .open(&sig_path)
        .ok();
    let stdout = std::io::stdout();
    let mut rep = Report::default();
    let mut last_flush = Instant::now();
    let mut violations = 0u32;
    let mut known_seen = 0u32;
    let known = load_known_findings();
    let mut r = a.start;
    let mut since_flush = 0u64;
    let flush = |rep: &mut Report, sig_file: &mut Option<std::fs::File>, upto: u64| {
        if let Some(f) = sig_file.as_mut() {
            let mut buf = Vec::with_capacity(rep.sigs.len() * 8);
            for s in rep.sigs.iter() {
                buf.extend_from_slice(&s.to_le_bytes());
            }
            let _ = f.write_all(&buf);
        }
        rep.sigs.clear();
        let line = format!("S {}\n", rep.to_json().with("upto", J::u(upto)).dump());
        let mut o = stdout.lock();
        let _ = o.write_all(line.as_bytes());
        let _ = o.flush();
        *rep = Report::default();
    };
    while r < a.end {
        write_progress(r);
        let out = props::run_index(&a.prop, &a.tier, a.seed, r, &budget, &samples, &mut rep);
        if let Some((sc, v)) = out {
            // a listed (open) known finding does not stop the search for other violations
            let probe = replay_json(&sc, &v, false, 0);
            let is_known = match_known(&known, &probe).is_some();
            if is_known {
                known_seen += 1;
                if known_seen > 4 {
                    since_flush += 1;
                    r += a.step;
                    continue;
                }
            } else {
                violations += 1;
            }
            // minimise before reporting
            let judge = |s: &Scenario| {
                write_progress(r);
                props::judge(s)
            };
            let first = judge(&sc);
            let (msc, mv, used, minimised) = match first {
                Some(v0) if v0.clause == v.clause => {
                    let mut m = Minimizer {
                        judge: &judge,
                        budget: 2000,
                        used: 0,
                        clause: v.clause.clone(),
                    };
                    let (s2, v2) = m.run(&sc, &v0);
                    (s2, v2, m.used, true)
                }
                _ => (sc.clone(), v.clone(), 0, false),
            };
            let line = format!("V {}\n", replay_json(&msc, &mv, minimised, used).dump());
            let mut o = stdout.lock();
            let _ = o.write_all(line.as_bytes());
            let _ = o.flush();
        }
        since_flush += 1;
        if since_flush >= 1 && last_flush.elapsed() > Duration::from_millis(500) {
            flush(&mut rep, &mut sig_file, r);
            last_flush = Instant::now();
            since_flush = 0;
            if std::path::Path::new(&stop_path).exists() {
                let mut o = stdout.lock();
                let _ = o.write_all(format!("E {}\n", r + a.step).as_bytes());
                return 0;
            }
        }
        if violations >= 3 {
            flush(&mut rep, &mut sig_file, r);
            let mut o = stdout.lock();
            let _ = o.write_all(format!("E {}\n", r + a.step).as_bytes());
            return 0;
        }
        r += a.step;
    }
    flush(&mut rep, &mut sig_file, a.end);
    let mut o = stdout.lock();
    let _ = o.write_all(format!("E {}\n", a.end).as_bytes());
    0
}

/// Called from long inner loops so the watchdog sees progress.
pub fn heartbeat(run: u64) {
    write_progress(run);
}

// ---------------------------------------------------------------------------------
// supervisor
// ---------------------------------------------------------------------------------

pub struct CheckArgs {
    pub prop: String,
    pub tier: String,
    pub workers: u32,
    pub worker_bin: String,
    pub runs_override: Option<u64>,
    pub label: String,
    pub write_evidence: bool,
    pub wall_cap_s: u64,
}

pub struct CheckResult {
    pub report: Report,
    pub violations: Vec<J>,
    pub known: Vec<String>,
    pub distinct: u64,
    pub wall_s: f64,
    pub inconclusive: Vec<J>,
    pub planned_runs: u64,
    pub workers: u32,
    pub harness_errors: Vec<String>,
}

enum Msg {
    Line(u32, String),
    Closed(u32),
}

struct Slot {
    child: Child,
    next: u64,
    last_hb: (u64, u64),
    last_change: Instant,
    done: bool,
    hangs: u32,
    killed: bool,
}

fn spawn_worker(a: &CheckArgs, seed: u64, start: u64, end: u64, step: u64, workdir: &str, wid: u32, tx: &mpsc::Sender<Msg>) -> std::io::Result<Child> {
    let mut child = Command::new(&a.worker_bin)
        .arg("worker")
        .arg(&a.prop)
        .arg(&a.tier)
        .arg(seed.to_string())
        .arg(start.to_string())
        .arg(end.to_string())
        .arg(step.to_string())
        .arg(workdir)
        .arg(wid.to_string())
        .stdin(Stdio::null())
        .stdout(Stdio::piped())
        .stderr(Stdio::null())
        .spawn()?;
    let out = child.stdout.take().unwrap();
    let tx = tx.clone();
    std::thread::spawn(move || {
        let rd = BufReader::with_capacity(1 << 20, out);
        for line in rd.lines() {
            match line {
                Ok(l) => {
                    if tx.send(Msg::Line(wid, l)).is_err() {
                        break;
                    }
                }
                Err(_) => break,
            }
        }
        let _ = tx.send(Msg::Closed(wid));
    });
    Ok(child)
}

fn read_progress(workdir: &str, wid: u32) -> Option<(u64, u64)> {
    let b = std::fs::read(format!("{}/w{}.progress", workdir, wid)).ok()?;
    if b.len() < 16 {
        return None;
    }
    Some((
        u64::from_le_bytes(b[..8].try_into().ok()?),
        u64::from_le_bytes(b[8..16].try_into().ok()?),
    ))
}

pub fn load_known_findings() -> Vec<J> {
    let p = format!("{}/known_findings.json", verif_root());
    match std::fs::read_to_string(&p) {
        Ok(t) => match json::parse(&t) {
            Ok(j) => j
                .get("findings")
                .and_then(|a| a.as_arr())
                .cloned()
                .unwrap_or_default(),
            Err(_) => Vec::new(),
        },
        Err(_) => Vec::new(),
    }
}

/// A violation matches a known finding when property, clause and op are equal and every
/// listed `detail_contains` substring occurs in the violation detail / recipe.
pub fn match_known(known: &[J], vj: &J) -> Option<String> {
    let e = vj.get("expect")?;
    for k in known {
        if k.gs("status") != "open" {
            continue; // "fixed" entries suppress nothing
        }
        if k.gs("property") != e.gs("property") {
            continue;
        }
        if !k.gs("clause").is_empty() && k.gs("clause") != e.gs("clause") {
            continue;
        }
        if !k.gs("op").is_empty() && k.gs("op") != e.gs("op") {
            continue;
        }
        let hay = format!(
            "{} {}",
            e.gs("detail"),
            vj.get("image_recipe").map(|r| r.dump()).unwrap_or_default()
        );
        let all = k
            .get("detail_contains")
            .and_then(|a| a.as_arr())
            .map(|a| a.iter().all(|s| hay.contains(s.as_str().unwrap_or("\u{0}"))))
            .unwrap_or(true);
        if all {
            return Some(k.gs("what").to_string());
        }
    }
    None
}

pub fn run_check(a: &CheckArgs) -> CheckResult {
    let seed = seed_from_env();
    let t0 = Instant::now();
    let samples = Samples::load();
    let mut budget = props::budget(&a.prop, &a.tier, &samples);
    if let Some(n) = a.runs_override {
        budget.runs = n.min(budget.runs.max(n));
    }
    let total = budget.runs;
    let workdir = format!("{}/work/{}-{}", verif_root(), a.prop, a.label);
    let _ = std::fs::remove_dir_all(&workdir);
    let _ = std::fs::create_dir_all(&workdir);
    let replays = format!("{}/replays", verif_root());
    let _ = std::fs::create_dir_all(&replays);
    // replay files of earlier runs of this property are stale once the check runs again
    if let Ok(rd) = std::fs::read_dir(&replays) {
        for e in rd.filter_map(|e| e.ok()) {
            if let Some(n) = e.file_name().to_str() {
                if n.starts_with(&format!("{}-", a.prop)) && a.label.ends_with("-std") {
                    let _ = std::fs::remove_file(e.path());
                }
            }
        }
    }
    let known = load_known_findings();

    let w = a.workers.max(1).min(total.max(1) as u32);
    let (tx, rx) = mpsc::channel::<Msg>();
    let mut slots: Vec<Slot> = Vec::new();
    let mut res = CheckResult {
        report: Report::default(),
        violations: Vec::new(),
        known: Vec::new(),
        distinct: 0,
        wall_s: 0.0,
        inconclusive: Vec::new(),
        planned_runs: total,
        workers: w,
        harness_errors: Vec::new(),
    };
    for wid in 0..w {
        match spawn_worker(a, seed, wid as u64, total, w as u64, &workdir, wid, &tx) {
            Ok(child) => slots.push(Slot {
                child,
                next: wid as u64,
                last_hb: (u64::MAX, 0),
                last_change: Instant::now(),
                done: false,
                hangs: 0,
                killed: false,
            }),
            Err(e) => {
                res.harness_errors.push(format!("cannot spawn worker: {}", e));
                return res;
            }
        }
    }
    let watchdog = Duration::from_secs(20);
    let mut open = w as usize;
    let mut stop_written = false;
    let mut unexplored: u64 = 0;
    let mut aborts: u32 = 0;
    let mut other_deaths: u32 = 0;
    while open > 0 {
        match rx.recv_timeout(Duration::from_millis(250)) {
            Ok(Msg::Line(wid, line)) => {
                let (tag, body) = line.split_at(line.len().min(2));
                match tag {
                    "S " => {
                        if let Ok(j) = json::parse(body) {
                            res.report.merge(&Report::from_json(&j));
                        }
                    }
                    "V " => {
                        if let Ok(j) = json::parse(body) {
                            if let Some(what) = match_known(&known, &j) {
                                let line = format!("KNOWN-FINDING: property={} {}", a.prop, what);
                                if !res.known.contains(&line) {
                                    res.known.push(line);
                                }
                            } else if res.violations.len() < 24 {
                                res.violations.push(j);
                            }
                        }
                    }
                    "E " => {
                        if let Ok(n) = body.trim().parse::<u64>() {
                            let s = &mut slots[wid as usize];
                            s.next = n;
                            s.done = true;
                            if n < total {
                                unexplored += (total - n + w as u64 - 1) / w as u64;
                            }
                        }
                    }
                    _ => {}
                }
            }
            Ok(Msg::Closed(wid)) => {
                let s = &mut slots[wid as usize];
                let status = s.child.wait().ok();
                if s.done {
                    open -= 1;
                    continue;
                }
                // the worker died: which run?
                let (run, _) = read_progress(&workdir, wid).unwrap_or((s.next, 0));
                let sig = status.and_then(|st| st.signal());
                let abort_rec = std::fs::read_to_string(format!("{}/w{}.abort", workdir, wid))
                    .unwrap_or_default();
                let refused = abort_rec.lines().last().map(|l| l.to_string());
                let killed_by_watchdog = s.killed;
                s.killed = false;
                if !killed_by_watchdog {
                    let note = J::obj()
                        .with("kind", J::s("worker-died"))
                        .with("run", J::u(run))
                        .with("seed", J::u(seed))
                        .with("signal", J::i(sig.unwrap_or(0) as i64))
                        .with("abort_record", J::Str(refused.clone().unwrap_or_default()));
                    if a.prop == "C08" && refused.as_deref().map(|l| l.starts_with("ALLOC_REFUSED")).unwrap_or(false) {
                        // process-abort violation of C08: build a self-contained replay file
                        if let Some(sc) = props::scenario_of(&a.prop, &a.tier, seed, run, &samples) {
                            let v = Violation {
                                prop: "C08".into(),
                                clause: "process-abort".into(),
                                op: "?".into(),
                                at_op_id: 0,
                                detail: format!(
                                    "the allocator seam refused an oversized request ({}) and the process aborted",
                                    refused.clone().unwrap_or_default()
                                ),
                            };
                            aborts += 1;
                            if res.violations.len() < 32 {
                                res.violations.push(replay_json(&sc, &v, false, 0));
                            }
                        }
                        // a tree that aborts over and over is not worth the whole budget
                        if aborts >= 8 && !stop_written {
                            let _ = std::fs::write(format!("{}/STOP", workdir), b"stop");
                            stop_written = true;
                        }
                    } else if sig.is_none() {
                        // exited by itself without finishing: a defect of the harness
                        res.harness_errors.push(format!(
                            "worker {} exited with status {:?} at run {} (harness panic?)",
                            wid,
                            status.and_then(|st| st.code()),
                            run
                        ));
                    } else {
                        if other_deaths < 48 {
                            eprintln!(
                                "inconclusive_abort: property={} seed={} run={} signal={:?}",
                                a.prop, seed, run, sig
                            );
                        }
                        if res.inconclusive.len() < 200 {
                            res.inconclusive.push(note.with("class", J::s("inconclusive_abort")));
                        }
                        other_deaths += 1;
                        // a tree on which workers keep dying (another property's defect)
                        // is not worth the whole budget: stop starting runs
                        if other_deaths >= 48 && !stop_written {
                            let _ = std::fs::write(format!("{}/STOP", workdir), b"stop");
                            stop_written = true;
                            eprintln!(
                                "giving up after {} worker deaths that are not attributable to {}",
                                other_deaths, a.prop
                            );
                        }
                    }
                    let _ = std::fs::write(format!("{}/w{}.abort", workdir, wid), b"");
                }
                // restart for the remaining indices
                let next = run + w as u64;
                if next < total && s.hangs < 3 && !stop_written {
                    match spawn_worker(a, seed, next, total, w as u64, &workdir, wid, &tx) {
                        Ok(child) => {
                            s.child = child;
                            s.next = next;
                            s.last_hb = (u64::MAX, 0);
                            s.last_change = Instant::now();
                        }
                        Err(e) => {
                            res.harness_errors.push(format!("cannot respawn worker: {}", e));
                            open -= 1;
                        }
                    }
                } else {
                    if next < total {
                        unexplored += (total - next + w as u64 - 1) / w as u64;
                    }
                    open -= 1;
                }
            }
            Err(mpsc::RecvTimeoutError::Timeout) => {}
            Err(mpsc::RecvTimeoutError::Disconnected) => break,
        }
        // watchdog
        for (wid, s) in slots.iter_mut().enumerate() {
            if s.done {
                continue;
            }
            if let Some(hb) = read_progress(&workdir, wid as u32) {
                if hb != s.last_hb {
                    s.last_hb = hb;
                    s.last_change = Instant::now();
                } else if s.last_change.elapsed() > watchdog {
                    eprintln!(
                        "inconclusive_hang: property={} seed={} run={} (no progress for {} s; worker killed)",
                        a.prop,
                        seed,
                        hb.0,
                        watchdog.as_secs()
                    );
                    res.inconclusive.push(
                        J::obj()
                            .with("class", J::s("inconclusive_hang"))
                            .with("run", J::u(hb.0))
                            .with("seed", J::u(seed)),
                    );
                    s.hangs += 1;
                    s.killed = true;
                    s.last_change = Instant::now();
                    let _ = s.child.kill();
                }
            }
        }
        if !stop_written && a.wall_cap_s > 0 && t0.elapsed().as_secs() > a.wall_cap_s {
            let _ = std::fs::write(format!("{}/STOP", workdir), b"stop");
            stop_written = true;
        }
    }
    if unexplored > 0 {
        res.report.add("unexplored_run_indices", unexplored);
    }
    // distinct signatures
    let mut set: HashSet<u64> = HashSet::new();
    for wid in 0..w {
        if let Ok(b) = std::fs::read(format!("{}/w{}.sigs", workdir, wid)) {
            for c in b.chunks_exact(8) {
                set.insert(u64::from_le_bytes(c.try_into().unwrap()));
            }
        }
    }
    res.distinct = set.len() as u64;
    res.wall_s = t0.elapsed().as_secs_f64();
    let _ = std::fs::remove_dir_all(&workdir);
    res
}

/// Write replay files and print VIOLATION / KNOWN-FINDING lines. Returns #violations.
pub fn publish(prop: &str, res: &CheckResult) -> usize {
    let seed = seed_from_env();
    for k in res.known.iter() {
        println!("{}", k);
    }
    let mut n = 0;
    let mut seen: HashSet<String> = HashSet::new();
    let mut sorted: Vec<&J> = res.violations.iter().collect();
    sorted.sort_by_key(|j| j.gu("run"));
    for j in sorted {
        let e = j.get("expect");
        let key = format!(
            "{}-{}-{}",
            e.map(|e| e.gs("clause")).unwrap_or(""),
            e.map(|e| e.gs("op")).unwrap_or(""),
            j.gu("run")
        );
        if !seen.insert(key) {
            continue;
        }
        let path = format!(
            "{}/replays/{}-{}-{}-{}.json",
            verif_root(),
            prop,
            seed,
            j.gu("run"),
            n
        );
        if std::fs::write(&path, j.pretty()).is_ok() {
            println!("VIOLATION property={} replay={}", prop, path);
            if let Some(e) = e {
                eprintln!(
                    "  clause={} op={} :: {}",
                    e.gs("clause"),
                    e.gs("op"),
                    e.gs("detail")
                );
            }
            n += 1;
        }
    }
    n
}

pub fn nproc() -> u32 {
    std::thread::available_parallelism()
        .map(|n| n.get() as u32)
        .unwrap_or(4)
}

// ---------------------------------------------------------------------------------
// replay
// ---------------------------------------------------------------------------------

/// Inner replay (runs in a child process so aborts and hangs are contained).
pub fn replay_inner(path: &str) -> i32 {
    silence_panics();
    let text = match std::fs::read_to_string(path) {
        Ok(t) => t,
        Err(e) => {
            eprintln!("cannot read {}: {}", path, e);
            return 2;
        }
    };
    let j = match json::parse(&text) {
        Ok(j) => j,
        Err(e) => {
            eprintln!("bad replay file: {}", e);
            return 2;
        }
    };
    let sc = match Scenario::from_json(&j) {
        Ok(s) => s,
        Err(e) => {
            eprintln!("bad scenario: {}", e);
            return 2;
        }
    };
    if let Ok(p) = std::env::var("ELFSIM_ABORT_FILE") {
        if let Ok(f) = std::fs::OpenOptions::new().create(true).append(true).open(&p) {
            crate::alloc::set_abort_fd(f.as_raw_fd());
            std::mem::forget(f);
        }
    }
    let want = j.get("expect");
    match props::judge(&sc) {
        Some(v) => {
            let same = want
                .map(|w| w.gs("clause") == v.clause && (w.gs("op") == v.op || w.gs("op") == "?"))
                .unwrap_or(true);
            eprintln!(
                "replayed: clause={} op={} at_op_id={} :: {}",
                v.clause, v.op, v.at_op_id, v.detail
            );
            if same {
                println!("VIOLATION property={} replay={}", sc.prop, path);
                1
            } else {
                println!(
                    "replay produced a different violation (clause={} op={}), expected clause={} op={}",
                    v.clause,
                    v.op,
                    want.map(|w| w.gs("clause")).unwrap_or(""),
                    want.map(|w| w.gs("op")).unwrap_or("")
                );
                println!("VIOLATION property={} replay={}", sc.prop, path);
                1
            }
        }
        None => {
            println!("did not reproduce: {}", path);
            0
        }
    }
}

pub fn replay_outer(path: &str, self_bin: &str) -> i32 {
    let abort_file = format!("{}/work/replay-{}.abort", verif_root(), std::process::id());
    let _ = std::fs::create_dir_all(format!("{}/work", verif_root()));
    let _ = std::fs::write(&abort_file, b"");
    let mut child = match Command::new(self_bin)
        .arg("replay-inner")
        .arg(path)
        .env("ELFSIM_ABORT_FILE", &abort_file)
        .env("RUST_BACKTRACE", "0")
        .spawn()
    {
        Ok(c) => c,
        Err(e) => {
            eprintln!("cannot spawn: {}", e);
            return 2;
        }
    };
    let t0 = Instant::now();
    loop {
        match child.try_wait() {
            Ok(Some(st)) => {
                let rec = std::fs::read_to_string(&abort_file).unwrap_or_default();
                let _ = std::fs::remove_file(&abort_file);
                if let Some(code) = st.code() {
                    return code;
                }
                let prop = json::parse(&std::fs::read_to_string(path).unwrap_or_default())
                    .ok()
                    .map(|j| j.gs("property").to_string())
                    .unwrap_or_default();
                if rec.contains("ALLOC_REFUSED") {
                    eprintln!("replayed: process aborted after {}", rec.trim());
                    println!("VIOLATION property={} replay={}", prop, path);
                    return 1;
                }
                eprintln!("replay child died with signal {:?}", st.signal());
                return 2;
            }
            Ok(None) => {
                if t0.elapsed() > Duration::from_secs(120) {
                    let _ = child.kill();
                    let _ = std::fs::remove_file(&abort_file);
                    eprintln!("replay timed out (hang)");
                    return 2;
                }
                std::thread::sleep(Duration::from_millis(20));
            }
            Err(_) => return 2,
        }
    }
}
