//! Scenario = one exactly repeatable execution: image on the simulated disk, endian spec,
//! op history, reader configuration. Plus the executors that run a scenario against the
//! real crate and record what happened.

use crate::exec::*;
use crate::hdr::Model;
use crate::json::{self, J};
use crate::obs::{Caps, VecSink};
use crate::ops::{Op, OpRec};
use elf::endian::{AnyEndian, BigEndian, EndianParse, LittleEndian};

#[derive(Clone, Copy, Debug, PartialEq, Eq, Hash)]
pub enum Spec {
    Any,
    Le,
    Be,
}

impl Spec {
    pub fn name(self) -> &'static str {
        match self {
            Spec::Any => "AnyEndian",
            Spec::Le => "LittleEndian",
            Spec::Be => "BigEndian",
        }
    }
    pub fn from(s: &str) -> Spec {
        match s {
            "LittleEndian" => Spec::Le,
            "BigEndian" => Spec::Be,
            _ => Spec::Any,
        }
    }
}

#[macro_export]
macro_rules! with_spec {
    ($spec:expr, $f:ident ( $($a:expr),* )) => {
        match $spec {
            $crate::scen::Spec::Any => $f::<elf::endian::AnyEndian>($($a),*),
            $crate::scen::Spec::Le => $f::<elf::endian::LittleEndian>($($a),*),
            $crate::scen::Spec::Be => $f::<elf::endian::BigEndian>($($a),*),
        }
    };
}

#[allow(dead_code)]
fn _spec_types_used(_: AnyEndian, _: LittleEndian, _: BigEndian) {}

#[cfg(feature = "stream")]
use crate::reader::ReaderCfg;

#[derive(Clone, Debug)]
pub struct Scenario {
    pub prop: String,
    pub seed: u64,
    pub run: u64,
    pub tier: String,
    pub spec: Spec,
    /// the complete file as the writer intended it
    pub image: Vec<u8>,
    /// bytes that reached the simulated disk (crash point); == image.len() when no crash
    pub durable_len: usize,
    /// bytes appended after the complete image by a second writer (C18 append scenario)
    pub suffix: Vec<u8>,
    pub ops: Vec<OpRec>,
    #[cfg(feature = "stream")]
    pub reader: ReaderCfg,
    /// re-issue every op once more after the history (C17)
    pub epilogue: bool,
    pub recipe: J,
    /// informational: sub-mode inside the property's check (e.g. "single-fault", "append")
    pub mode: String,
}

impl Scenario {
    /// The bytes a parser sees.
    pub fn visible(&self) -> Vec<u8> {
        let mut v = self.image[..self.durable_len.min(self.image.len())].to_vec();
        if self.durable_len >= self.image.len() {
            v.extend_from_slice(&self.suffix);
        }
        v
    }

    pub fn to_json(&self) -> J {
        let mut j = J::obj()
            .with("property", J::s(&self.prop))
            .with("seed", J::u(self.seed))
            .with("run", J::u(self.run))
            .with("tier", J::s(&self.tier))
            .with("mode", J::s(&self.mode))
            .with("endian_spec", J::s(self.spec.name()))
            .with("image_len", J::u(self.image.len() as u64))
            .with("durable_len", J::u(self.durable_len as u64))
            .with("image_hex", J::Str(json::hex(&self.image)))
            .with("suffix_hex", J::Str(json::hex(&self.suffix)))
            .with("image_recipe", self.recipe.clone())
            .with(
                "ops",
                J::Arr(self.ops.iter().map(|o| o.to_json()).collect()),
            )
            .with("epilogue", J::Bool(self.epilogue));
        #[cfg(feature = "stream")]
        j.set("reader", self.reader.to_json());
        j
    }

    pub fn from_json(j: &J) -> Result<Scenario, String> {
        let image = json::unhex(j.gs("image_hex"))?;
        let suffix = json::unhex(j.gs("suffix_hex"))?;
        let ops = j
            .get("ops")
            .and_then(|a| a.as_arr())
            .map(|a| a.iter().filter_map(OpRec::from_json).collect())
            .unwrap_or_default();
        Ok(Scenario {
            prop: j.gs("property").to_string(),
            seed: j.gu("seed"),
            run: j.gu("run"),
            tier: j.gs("tier").to_string(),
            mode: j.gs("mode").to_string(),
            spec: Spec::from(j.gs("endian_spec")),
            durable_len: j
                .get("durable_len")
                .and_then(|v| v.as_u64())
                .map(|v| v as usize)
                .unwrap_or(image.len()),
            image,
            suffix,
            ops,
            #[cfg(feature = "stream")]
            reader: j
                .get("reader")
                .map(ReaderCfg::from_json)
                .unwrap_or_else(ReaderCfg::well_behaved),
            epilogue: j.get("epilogue").and_then(|b| b.as_bool()).unwrap_or(false),
            recipe: j.get("image_recipe").cloned().unwrap_or(J::Null),
        })
    }
}

pub fn caps_for(bytes: &[u8], model: &Model) -> Caps {
    let symver_n = model
        .shdrs
        .iter()
        .filter(|s| s.typ == crate::hdr::SHT_GNU_VERSYM)
        .map(|s| (s.size / 2).min(bytes.len() as u64) as usize)
        .max()
        .unwrap_or(0);
    Caps {
        items: bytes.len() + 16,
        symver_n,
    }
}

/// Result of one op on one parser.
#[derive(Clone, Debug, PartialEq, Eq)]
pub struct OpOut {
    pub tag: Tag,
    pub obs: Vec<u8>,
}

/// Run `open` + ops on the slice parser. The result vector has one entry for open
/// (index 0) and one per op; ops after a failed open are `Err` with empty content.
pub fn run_slice<E: EndianParse>(bytes: &[u8], ops: &[OpRec], caps: Caps) -> Vec<OpOut> {
    let ctx = Ctx::plain(caps);
    let mut out = Vec::with_capacity(ops.len() + 1);
    let mut k = VecSink(Vec::new());
    let (tag, eb) = slice_open::<E, _>(&ctx, bytes, &mut k);
    out.push(finish(tag, k));
    for o in ops.iter() {
        match &eb {
            None => out.push(OpOut {
                tag: Tag::Err,
                obs: Vec::new(),
            }),
            Some(eb) => {
                let mut k = VecSink(Vec::new());
                let tag = slice_op(&ctx, eb, &o.op, &mut k);
                out.push(finish(tag, k));
            }
        }
    }
    out
}

pub fn finish(tag: Tag, k: VecSink) -> OpOut {
    // only a complete drain is content; everything else compares by tag alone
    let obs = if tag == Tag::Ok { k.0 } else { Vec::new() };
    OpOut { tag, obs }
}

#[cfg(feature = "stream")]
pub use stream_run::*;

#[cfg(feature = "stream")]
mod stream_run {
    use super::*;
    use crate::alloc::{self, StreamStats};
    use crate::reader::{Event, FaultCounters, ReaderState, SimReader};
    use std::cell::RefCell;
    use std::rc::Rc;

    pub const EPILOGUE_ID_BASE: u32 = 1_000_000;

    #[derive(Clone, Debug)]
    pub struct StepRec {
        pub id: u32,
        /// index into scenario.ops (+1; 0 = open)
        pub op_index: usize,
        pub epilogue: bool,
        pub out: OpOut,
        pub delivered: Vec<(u64, u64)>,
        pub failure_in_op: bool,
        /// the only failure delivered during the op was a transient `Interrupted` seek
        pub only_interrupted_seek: bool,
        pub failure_before: bool,
        pub io_events: u32,
        pub alloc: StreamStats,
        pub step_cap: bool,
    }

    #[derive(Clone, Debug)]
    pub struct StreamRun {
        pub steps: Vec<StepRec>,
        pub opened: bool,
        pub counters: FaultCounters,
        pub events: Vec<Event>,
        pub total_events: u64,
        pub stream_len: u64,
        /// the stream's own view of its header tables (as reported by its public API)
        pub own_shdrs: Vec<crate::hdr::Shdr>,
        pub own_phdrs: Vec<crate::hdr::Phdr>,
    }

    /// The "fixed few-KiB overhead" of C08's bound.
    pub const ALLOC_SLACK: u64 = 16_384;

    /// The single-allocation bound of C08 for a stream of length `len`.
    pub fn alloc_bound(len: u64) -> usize {
        (4u64.saturating_mul(len).saturating_add(ALLOC_SLACK)).min(usize::MAX as u64) as usize
    }

    /// Execute a scenario's history against `ElfStream<E, SimReader>`.
    pub fn run_stream<E: EndianParse>(sc: &Scenario, caps: Caps) -> StreamRun {
        let bytes = sc.visible();
        let len = bytes.len() as u64;
        let st = Rc::new(RefCell::new(ReaderState::new(bytes, sc.reader.clone())));
        let ctx = Ctx {
            call_scope: alloc::STREAM,
            drain_scope: alloc::OFF,
            caps,
        };
        let bound = alloc_bound(len);
        let mut steps: Vec<StepRec> = Vec::with_capacity(sc.ops.len() * 2 + 1);

        let snapshot = |st: &Rc<RefCell<ReaderState>>,
                        id: u32,
                        op_index: usize,
                        epilogue: bool,
                        failure_before: bool,
                        out: OpOut|
         -> StepRec {
            let s = st.borrow();
            StepRec {
                id,
                op_index,
                epilogue,
                out,
                delivered: s.delivered.clone(),
                failure_in_op: s.failure_in_op,
                only_interrupted_seek: s.failure_in_op && !s.hard_failure_in_op,
                failure_before,
                io_events: s.events_in_op,
                alloc: alloc::stream_stats(),
                step_cap: s.step_cap_hit,
            }
        };

        // open (op id 0)
        st.borrow_mut().begin_op(0);
        alloc::stream_begin(bound);
        let mut k = VecSink(Vec::new());
        let (tag, es) = stream_open::<E, _>(&ctx, SimReader::new(st.clone()), &mut k);
        steps.push(snapshot(&st, 0, 0, false, false, finish(tag, k)));
        let opened = es.is_some();
        let mut own_shdrs = Vec::new();
        let mut own_phdrs = Vec::new();
        if let Some(mut es) = es {
            for h in es.section_headers().iter() {
                own_shdrs.push(crate::hdr::Shdr {
                    name: h.sh_name,
                    typ: h.sh_type,
                    flags: h.sh_flags,
                    addr: h.sh_addr,
                    offset: h.sh_offset,
                    size: h.sh_size,
                    link: h.sh_link,
                    info: h.sh_info,
                    addralign: h.sh_addralign,
                    entsize: h.sh_entsize,
                });
            }
            for p in es.segments().iter() {
                own_phdrs.push(crate::hdr::Phdr {
                    typ: p.p_type,
                    flags: p.p_flags,
                    offset: p.p_offset,
                    vaddr: p.p_vaddr,
                    paddr: p.p_paddr,
                    filesz: p.p_filesz,
                    memsz: p.p_memsz,
                    align: p.p_align,
                });
            }
            let passes: &[bool] = if sc.epilogue { &[false, true] } else { &[false] };
            for &epi in passes {
                if epi && sc.reader.heal_at_epilogue {
                    st.borrow_mut().heal();
                }
                for (i, o) in sc.ops.iter().enumerate() {
                    if o.op.slice_only() {
                        continue;
                    }
                    let id = if epi { EPILOGUE_ID_BASE + o.id } else { o.id };
                    let failure_before = st.borrow().failure_ever;
                    st.borrow_mut().begin_op(id);
                    alloc::stream_begin(bound);
                    let mut k = VecSink(Vec::new());
                    let tag = stream_op(&ctx, &mut es, &o.op, &mut k);
                    steps.push(snapshot(&st, id, i + 1, epi, failure_before, finish(tag, k)));
                }
            }
            let _g = alloc::ScopeGuard::enter(alloc::OFF);
            drop(es);
        }
        let s = st.borrow();
        StreamRun {
            steps,
            opened,
            counters: s.counters,
            events: s.events.clone(),
            total_events: s.seq,
            stream_len: len,
            own_shdrs,
            own_phdrs,
        }
    }
}
