//! Own PRNG: SplitMix64 for seeding / hashing, xoshiro256** for streams.
//! Everything random in the simulator derives from one u64 (VERIF_SEED).

#[inline]
pub fn splitmix64(state: &mut u64) -> u64 {
    *state = state.wrapping_add(0x9E37_79B9_7F4A_7C15);
    let mut z = *state;
    z = (z ^ (z >> 30)).wrapping_mul(0xBF58_476D_1CE4_E5B9);
    z = (z ^ (z >> 27)).wrapping_mul(0x94D0_49BB_1331_11EB);
    z ^ (z >> 31)
}

/// Stateless 64-bit mixer (one SplitMix64 finalisation of a ^ rot(b)).
#[inline]
pub fn mix(a: u64, b: u64) -> u64 {
    let mut s = a ^ b.rotate_left(32).wrapping_mul(0xD6E8_FEB8_6659_FD93);
    let x = splitmix64(&mut s);
    x ^ splitmix64(&mut s)
}

#[inline]
pub fn mix3(a: u64, b: u64, c: u64) -> u64 {
    mix(mix(a, b), c)
}

#[derive(Clone, Debug)]
pub struct Rng {
    s: [u64; 4],
}

impl Rng {
    pub fn new(seed: u64) -> Rng {
        let mut st = seed;
        let s = [
            splitmix64(&mut st),
            splitmix64(&mut st),
            splitmix64(&mut st),
            splitmix64(&mut st),
        ];
        Rng { s }
    }

    /// Independent sub-stream `id` of a run seed.
    pub fn sub(run_seed: u64, id: u64) -> Rng {
        Rng::new(mix(run_seed, id))
    }

    #[inline]
    pub fn next_u64(&mut self) -> u64 {
        let result = self.s[1].wrapping_mul(5).rotate_left(7).wrapping_mul(9);
        let t = self.s[1] << 17;
        self.s[2] ^= self.s[0];
        self.s[3] ^= self.s[1];
        self.s[1] ^= self.s[2];
        self.s[0] ^= self.s[3];
        self.s[2] ^= t;
        self.s[3] = self.s[3].rotate_left(45);
        result
    }

    /// Uniform in [0, n); n == 0 yields 0.
    #[inline]
    pub fn below(&mut self, n: u64) -> u64 {
        if n == 0 {
            return 0;
        }
        // multiply-shift; bias is irrelevant for a simulator
        ((self.next_u64() as u128 * n as u128) >> 64) as u64
    }

    #[inline]
    pub fn usize_below(&mut self, n: usize) -> usize {
        self.below(n as u64) as usize
    }

    /// Uniform in [lo, hi] inclusive.
    #[inline]
    pub fn range(&mut self, lo: u64, hi: u64) -> u64 {
        if hi <= lo {
            return lo;
        }
        lo + self.below(hi - lo + 1)
    }

    #[inline]
    pub fn urange(&mut self, lo: usize, hi: usize) -> usize {
        self.range(lo as u64, hi as u64) as usize
    }

    /// True with probability num/den.
    #[inline]
    pub fn chance(&mut self, num: u64, den: u64) -> bool {
        self.below(den) < num
    }

    pub fn pick<'a, T>(&mut self, xs: &'a [T]) -> &'a T {
        &xs[self.usize_below(xs.len())]
    }

    pub fn fill(&mut self, buf: &mut [u8]) {
        for chunk in buf.chunks_mut(8) {
            let v = self.next_u64().to_le_bytes();
            chunk.copy_from_slice(&v[..chunk.len()]);
        }
    }
}

/// FNV-1a 64 over bytes, used for digests / signatures (not for randomness).
#[inline]
pub fn fnv1a(mut h: u64, bytes: &[u8]) -> u64 {
    for b in bytes {
        h ^= *b as u64;
        h = h.wrapping_mul(0x0000_0100_0000_01B3);
    }
    h
}
pub const FNV_INIT: u64 = 0xcbf2_9ce4_8422_2325;
