//! elfsim — deterministic simulation with fault injection for cole14/rust-elf.
//! See /verif/DESIGN.md.

mod alloc;
mod exec;
mod gen;
mod hdr;
mod json;
mod minimize;
mod noalloc;
mod obs;
mod ops;
mod props;
mod report;
mod rng;
mod scen;
mod sup;
mod workload;

#[cfg(feature = "stream")]
mod equiv;
#[cfg(feature = "stream")]
mod faults;
#[cfg(feature = "stream")]
mod prefix;
#[cfg(feature = "stream")]
mod reader;
#[cfg(feature = "stream")]
mod sweep;

#[cfg(not(feature = "stream"))]
mod equiv {
    //! slice-only build: just the shared types
    #[derive(Clone, Debug)]
    pub struct Violation {
        pub prop: String,
        pub clause: String,
        pub op: String,
        pub at_op_id: u32,
        pub detail: String,
    }
    pub fn prop_id(p: &str) -> u64 {
        match p {
            "C06" => 6,
            _ => 99,
        }
    }
}

use json::J;
use std::time::Instant;

#[global_allocator]
static GLOBAL: alloc::SimAlloc = alloc::SimAlloc;

fn usage() -> i32 {
    eprintln!(
        "usage: elfsim check <C06|C07|C08|C17|C18> --tier quick|thorough [--workers N] [--runs N] [--nostd-bin PATH] [--no-evidence]\n       elfsim replay <file>\n       elfsim selftest determinism   (reach: ./check selftest reach)\n       elfsim dump <P> <tier> <seed> <run>\n       elfsim digest <P> <tier> <seed> <start> <end>"
    );
    2
}

fn arg_after(args: &[String], flag: &str) -> Option<String> {
    args.iter()
        .position(|a| a == flag)
        .and_then(|i| args.get(i + 1))
        .cloned()
}

fn main() {
    let args: Vec<String> = std::env::args().collect();
    let code = real_main(&args);
    std::process::exit(code);
}

fn real_main(args: &[String]) -> i32 {
    if args.len() < 2 {
        return usage();
    }
    let self_bin = std::env::current_exe()
        .ok()
        .and_then(|p| p.to_str().map(|s| s.to_string()))
        .unwrap_or_else(|| args[0].clone());
    match args[1].as_str() {
        "worker" => {
            if args.len() < 10 {
                return usage();
            }
            let p = |i: usize| args[i].parse::<u64>().unwrap_or(0);
            sup::worker_main(sup::WorkerArgs {
                prop: args[2].clone(),
                tier: args[3].clone(),
                seed: p(4),
                start: p(5),
                end: p(6),
                step: p(7).max(1),
                workdir: args[8].clone(),
                wid: p(9) as u32,
            })
        }
        "check" => {
            if args.len() < 3 {
                return usage();
            }
            let prop = args[2].clone();
            let tier = arg_after(args, "--tier")
                .or_else(|| std::env::var("VERIF_TIER").ok())
                .unwrap_or_else(|| "quick".into());
            if tier != "quick" && tier != "thorough" {
                return usage();
            }
            let workers = arg_after(args, "--workers")
                .and_then(|s| s.parse().ok())
                .unwrap_or_else(sup::nproc);
            let runs = arg_after(args, "--runs").and_then(|s| s.parse().ok());
            let nostd_bin = arg_after(args, "--nostd-bin");
            let write_ev = !args.iter().any(|a| a == "--no-evidence");
            check_main(&prop, &tier, workers, runs, nostd_bin, write_ev, &self_bin)
        }
        "replay" => {
            if args.len() < 3 {
                return usage();
            }
            sup::replay_outer(&args[2], &self_bin)
        }
        "replay-inner" => {
            if args.len() < 3 {
                return usage();
            }
            sup::replay_inner(&args[2])
        }
        "dump" => {
            if args.len() < 6 {
                return usage();
            }
            let samples = gen::Samples::load();
            let seed = args[4].parse().unwrap_or(1);
            let run = args[5].parse().unwrap_or(0);
            match props::scenario_of(&args[2], &args[3], seed, run, &samples) {
                Some(sc) => {
                    println!("{}", sc.to_json().pretty());
                    0
                }
                None => 2,
            }
        }
        #[cfg(feature = "stream")]
        "ptr32" => {
            if args.len() < 7 {
                return usage();
            }
            ptr32_main(
                &args[2],
                args[3].parse().unwrap_or(1),
                args[4].parse().unwrap_or(0),
                args[5].parse().unwrap_or(0),
                args[6].parse().unwrap_or(1),
            )
        }
        #[cfg(feature = "stream")]
        "ptr32-case" => {
            // replay of one pointer-width case: re-derived from (seed, case), judged, announced
            if args.len() < 6 {
                return usage();
            }
            sup::silence_panics();
            let prop = args[2].as_str();
            let sc = sweep::ptr32_scenario(prop, args[3].parse().unwrap_or(1), args[4].parse().unwrap_or(0));
            let run = equiv::execute(&sc);
            let mut f = equiv::RunFacts::default();
            let v = if prop == "C07" {
                equiv::check_c07(&sc, &run, &mut f)
            } else {
                equiv::check_c08(&sc, &run, &mut f)
            };
            match v {
                Some(v) => {
                    eprintln!("replayed (usize = {} bits): clause={} op={} at_op_id={} :: {}", usize::BITS, v.clause, v.op, v.at_op_id, v.detail);
                    println!("VIOLATION property={} replay={}", prop, args[5]);
                    1
                }
                None => {
                    println!("replay (usize = {} bits): no violation; the property holds on this case with the current tree", usize::BITS);
                    0
                }
            }
        }
        "digest" => {
            if args.len() < 7 {
                return usage();
            }
            digest_main(
                &args[2],
                &args[3],
                args[4].parse().unwrap_or(1),
                args[5].parse().unwrap_or(0),
                args[6].parse().unwrap_or(0),
            )
        }
        "selftest" => {
            let what = args.get(2).map(|s| s.as_str()).unwrap_or("determinism");
            selftest_main(what, &self_bin)
        }
        _ => usage(),
    }
}

/// Pointer-width pass (run under Miri for a 32-bit target, but works on any host): cases
/// `start, start+step, ...  < end` of `sweep::ptr32_cases()`, visited in an order decided by
/// the master seed; each scenario is executed once and judged by the oracle of every
/// property in `props` ("C07", "C08" or "C07,C08"). One line per case
/// on stdout (`PTR32 ...`), violations are minimised (small budget), written as replay files
/// and announced with the usual VIOLATION line. No threads, no child processes, no clock.
#[cfg(feature = "stream")]
fn ptr32_main(props: &str, seed: u64, start: u64, end: u64, step: u64) -> i32 {
    sup::silence_panics();
    let total = sweep::ptr32_cases();
    // order of visit: every 8-byte field in turn (one pass = all of them); even passes use the
    // wrapping twin (intact + 2^32), odd passes rotate through the other values; the base
    // image changes with every case, starting from a seed-dependent one
    let (nw, nv, nimg) = sweep::ptr32_dims();
    let off = rng::mix(seed, 0x3232) % nimg;
    let others: [u64; 5] = [3, 5, 6, 7, 1];
    let mut bad = 0;
    let mut j = start;
    println!("PTR32-START usize_bits={} cases_total={}", usize::BITS, total);
    while j < end {
        let fpos = j % nw;
        let pass = j / nw;
        let vpos = if pass % 2 == 0 { 0 } else { others[((pass / 2 + j) % 5) as usize] };
        let img = (off + j + pass * 13) % nimg;
        let case = img * nw * nv + fpos * nv + vpos;
        let mut line = format!("PTR32 j={} case={}", j, case);
        let sc0 = sweep::ptr32_scenario("C08", seed, case);
        let run = equiv::execute(&sc0);
        for prop in props.split(',') {
            let mut sc = sc0.clone();
            sc.prop = prop.to_string();
            let mut f = equiv::RunFacts::default();
            let v = if prop == "C07" {
                equiv::check_c07(&sc, &run, &mut f)
            } else {
                equiv::check_c08(&sc, &run, &mut f)
            };
            equiv::collect_facts(&sc, &run, &mut f);
            if prop == props.split(',').next().unwrap_or("") {
                let errs: u32 = (0..17).map(|i| f.op_grid[i][1] + f.op_grid[i][3]).sum();
                let oks: u32 = (0..17).map(|i| f.op_grid[i][0]).sum();
                line.push_str(&format!(
                    " io_events={} stream_ok={} stream_err={} set={}",
                    f.io_events,
                    oks,
                    errs,
                    sc.recipe.gs("set")
                ));
            }
            match v {
                None => line.push_str(&format!(" {}=held", prop)),
                Some(v) => {
                    bad += 1;
                    // no minimisation under the interpreter: the case is one point of a
                    // deterministic sweep, replayed by re-deriving it from (seed, case)
                    let (msc, mv) = (sc.clone(), v.clone());
                    let path = format!(
                        "{}/replays/{}-{}-ptr32-{}.json",
                        sup::verif_root(),
                        prop,
                        seed,
                        case
                    );
                    let _ = std::fs::create_dir_all(format!("{}/replays", sup::verif_root()));
                    let _ = std::fs::write(&path, sup::replay_json(&msc, &mv, false, 0).pretty());
                    line.push_str(&format!(" {}=VIOLATED[{}:{}]", prop, mv.clause, mv.op));
                    eprintln!("  clause={} op={} :: {}", mv.clause, mv.op, mv.detail);
                    println!("VIOLATION property={} replay={}", prop, path);
                }
            }
        }
        println!("{}", line);
        j += step.max(1);
    }
    println!("PTR32-DONE violations={}", bad);
    if bad > 0 {
        1
    } else {
        0
    }
}

/// The pointer-width pass: builds the simulator for i686-unknown-linux-gnu under Miri (no
/// linker or 32-bit libc needed: Miri interprets) and runs `cases` cases of `elfsim ptr32`
/// split over `workers` interpreter processes. Infrastructure trouble (no nightly, no Miri,
/// a worker that dies or runs out of time) is *recorded* and never a verdict: only
/// VIOLATION lines printed by a worker count.
#[cfg(feature = "stream")]
fn ptr32_pass(prop: &str, seed: u64, cases: u64, workers: u64, cap_s: u64) -> (J, usize) {
    use std::process::{Command, Stdio};
    let t0 = Instant::now();
    let root = sup::verif_root();
    let manifest_dir = std::env::var("ELFSIM_MANIFEST_DIR").unwrap_or_else(|_| format!("{}/sim", root));
    let mk = |start: u64, end: u64, step: u64| {
        let mut c = Command::new("cargo");
        c.args([
            "+nightly",
            "miri",
            "run",
            "--offline",
            "--quiet",
            "--target",
            "i686-unknown-linux-gnu",
            "--manifest-path",
            &format!("{}/Cargo.toml", manifest_dir),
            "--target-dir",
            &format!("{}/target/miri32", root),
            "--",
            "ptr32",
            prop,
            &seed.to_string(),
            &start.to_string(),
            &end.to_string(),
            &step.to_string(),
        ])
        .env("MIRIFLAGS", "-Zmiri-disable-isolation")
        .env("CARGO_NET_OFFLINE", "true")
        .env("ELFSIM_VERIF", &root)
        .env("RUSTFLAGS", "-Awarnings")
        .stdin(Stdio::null())
        .stdout(Stdio::piped())
        .stderr(Stdio::piped());
        c
    };
    let mut j = J::obj()
        .with("target", J::s("i686-unknown-linux-gnu, interpreted by Miri (usize = 32 bits)"))
        .with("cases_planned", J::u(cases))
        .with(
            "rule",
            J::s("case = ELF64 field-sweep image with one 8-byte field set to a value a 32-bit host cannot address (intact + 2^32 every other case, 2^32-1, 2^63, u64::MAX, top bit flipped, 5*len+10000) x the full stream query set, judged by this property's oracle; cases visited in a seed-dependent order"),
        );
    // build (and sysroot) first, with an empty case range
    let built = mk(0, 0, 1).output();
    let build_ok = match &built {
        Ok(o) => o.status.success() && String::from_utf8_lossy(&o.stdout).contains("PTR32-DONE"),
        Err(_) => false,
    };
    if !build_ok {
        let why = match built {
            Ok(o) => String::from_utf8_lossy(&o.stderr).lines().rev().take(6).collect::<Vec<_>>().join(" | "),
            Err(e) => e.to_string(),
        };
        eprintln!("pointer-width pass not run (recorded in the evidence, not a verdict): {}", why);
        j.set("status", J::s("not run: the simulator could not be built or started under Miri for the 32-bit target"));
        j.set("reason", J::Str(why));
        j.set("cases_run", J::u(0));
        return (j, 0);
    }
    // the time cap counts from here: building the interpreted simulator is not charged to it
    let t_workers = Instant::now();
    let w = workers.min(cases.max(1));
    let mut kids = Vec::new();
    for i in 0..w {
        if let Ok(k) = mk(i, cases, w).spawn() {
            kids.push(k);
        }
    }
    let mut cases_run = 0u64;
    let mut held = 0u64;
    let mut viol = 0usize;
    let mut incomplete = 0u64;
    let mut usize_bits = String::new();
    let mut io_events = 0u64;
    let mut samples: Vec<J> = Vec::new();
    for mut k in kids {
        // wait with a cap
        let out = loop {
            match k.try_wait() {
                Ok(Some(_)) => break k.wait_with_output().ok(),
                Ok(None) => {
                    if t_workers.elapsed().as_secs() > cap_s {
                        let _ = k.kill();
                        break k.wait_with_output().ok();
                    }
                    std::thread::sleep(std::time::Duration::from_millis(50));
                }
                Err(_) => break None,
            }
        };
        let Some(out) = out else {
            incomplete += 1;
            continue;
        };
        let text = String::from_utf8_lossy(&out.stdout).to_string();
        let mut done = false;
        for l in text.lines() {
            if let Some(rest) = l.strip_prefix("PTR32-START ") {
                usize_bits = rest.split_whitespace().next().unwrap_or("").to_string();
            } else if l.starts_with("PTR32-DONE") {
                done = true;
            } else if l.starts_with("PTR32 ") {
                cases_run += 1;
                if l.ends_with("=held") {
                    held += 1;
                }
                if let Some(p) = l.find("io_events=") {
                    io_events += l[p + 10..].split_whitespace().next().and_then(|s| s.parse::<u64>().ok()).unwrap_or(0);
                }
                if samples.len() < 6 {
                    samples.push(J::Str(l.to_string()));
                }
            } else if l.starts_with("VIOLATION ") {
                viol += 1;
                println!("{}", l);
            }
        }
        if !done {
            incomplete += 1;
            let tail: Vec<&str> = std::str::from_utf8(&out.stderr).unwrap_or("").lines().rev().take(4).collect();
            eprintln!("pointer-width pass: an interpreter process did not finish (recorded, not a verdict): {}", tail.join(" | "));
        }
    }
    j.set("status", J::s(if incomplete == 0 { "completed" } else { "partly run: some interpreter processes did not finish (time cap or interpreter failure); recorded, not a verdict" }));
    j.set("host", J::Str(usize_bits));
    j.set("cases_run", J::u(cases_run));
    j.set("cases_held", J::u(held));
    j.set("violations", J::u(viol as u64));
    j.set("interpreter_processes", J::u(w));
    j.set("interpreter_processes_incomplete", J::u(incomplete));
    j.set("sim_time_io_events", J::u(io_events));
    j.set("samples", J::Arr(samples));
    j.set("wall_s", J::Float(t0.elapsed().as_secs_f64()));
    (j, viol)
}

/// Per-run digests (event log, outcomes, allocation sizes) for the determinism self-test.
fn digest_main(prop: &str, tier: &str, seed: u64, start: u64, end: u64) -> i32 {
    sup::silence_panics();
    let samples = gen::Samples::load();
    let budget = props::budget(prop, tier, &samples);
    for r in start..end {
        let mut rep = report::Report::default();
        let out = props::run_index(prop, tier, seed, r, &budget, &samples, &mut rep);
        let mut h = rng::FNV_INIT;
        h = rng::fnv1a(h, rep.to_json().dump().as_bytes());
        for s in rep.sigs.iter() {
            h = rng::fnv1a(h, &s.to_le_bytes());
        }
        if let Some((sc, v)) = out {
            h = rng::fnv1a(h, sc.to_json().dump().as_bytes());
            h = rng::fnv1a(h, v.clause.as_bytes());
        }
        println!("{} {:016x}", r, h);
    }
    0
}

fn selftest_main(what: &str, self_bin: &str) -> i32 {
    use std::process::Command;
    match what {
        "determinism" => {
            let seed0 = sup::seed_from_env();
            let mut bad = 0;
            let mut compared = 0u64;
            for (seed, prop) in [seed0, seed0.wrapping_add(1_000_003)]
                .iter()
                .flat_map(|s| ["C06", "C07", "C08", "C17", "C18"].iter().map(move |p| (*s, *p)))
            {
                let n: u64 = match prop {
                    "C17" => 24,
                    "C18" => 12,
                    _ => 3000,
                };
                // C17: also a slice of the multi-fault index space
                let ranges: Vec<(u64, u64)> = if prop == "C17" {
                    vec![(0, n), (400, 400 + 1500)]
                } else {
                    vec![(0, n)]
                };
                for (lo, hi) in ranges {
                    let mut reference: Vec<String> = Vec::new();
                    for (wi, w) in [1u64, 4, 16].iter().enumerate() {
                        // split [lo,hi) over w processes, run them concurrently
                        let mut kids = Vec::new();
                        let span = (hi - lo + w - 1) / w;
                        for k in 0..*w {
                            let a = lo + k * span;
                            let b = (a + span).min(hi);
                            if a >= b {
                                continue;
                            }
                            let c = Command::new(self_bin)
                                .args(["digest", prop, "quick"])
                                .arg(seed.to_string())
                                .arg(a.to_string())
                                .arg(b.to_string())
                                .output();
                            kids.push(c);
                        }
                        let mut lines: Vec<String> = Vec::new();
                        for k in kids {
                            match k {
                                Ok(o) => {
                                    lines.extend(
                                        String::from_utf8_lossy(&o.stdout)
                                            .lines()
                                            .map(|s| s.to_string()),
                                    );
                                }
                                Err(e) => {
                                    eprintln!("selftest: cannot run digest: {}", e);
                                    return 2;
                                }
                            }
                        }
                        lines.sort_by_key(|l| {
                            l.split(' ').next().and_then(|x| x.parse::<u64>().ok()).unwrap_or(0)
                        });
                        if wi == 0 {
                            reference = lines;
                        } else {
                            compared += lines.len() as u64;
                            if lines != reference {
                                let first = lines
                                    .iter()
                                    .zip(reference.iter())
                                    .find(|(a, b)| a != b)
                                    .map(|(a, b)| format!("{} vs {}", a, b))
                                    .unwrap_or_else(|| "length mismatch".into());
                                eprintln!(
                                    "DETERMINISM MISMATCH property={} W={} : {}",
                                    prop, w, first
                                );
                                bad += 1;
                            }
                        }
                    }
                }
            }
            println!(
                "selftest determinism: {} run digests (2 master seeds) compared across W=1/4/16, mismatching batches: {}",
                compared, bad
            );
            if bad > 0 {
                2
            } else {
                0
            }
        }
        _ => usage(),
    }
}

fn components() -> J {
    J::Arr(vec![
        J::obj().with("component", J::s("elf::ElfStream, CachingReader, all parsers/iterators (from /repo working tree)")).with("kind", J::s("real")),
        J::obj().with("component", J::s("elf::ElfBytes and everything reachable from it (also the reference model of C07)")).with("kind", J::s("real")),
        J::obj().with("component", J::s("std::io::Read::read_exact, HashMap, Vec, Box")).with("kind", J::s("real std")),
        J::obj().with("component", J::s("Read + Seek object (SimReader)")).with("kind", J::s("simulated")),
        J::obj().with("component", J::s("heap allocator (System wrapped by SimAlloc: records, bounds, can deny/refuse)")).with("kind", J::s("real, wrapped")),
        J::obj().with("component", J::s("file system / disk / writer (in-memory image with durable length, appending writer)")).with("kind", J::s("simulated")),
        J::obj().with("component", J::s("designated-byte-range / header model hdr.rs (independent of the crate)")).with("kind", J::s("stub / reference model")),
    ])
}

fn rule_for(prop: &str) -> &'static str {
    match prop {
        "C06" => "case = one image (generated valid/corrupted, or sample object) x the full slice-parser query set under the deny-mode allocator; non-trivial = the image opened and at least 2 calls returned Ok; distinct = distinct hash of (image structural class, endian spec, per-call outcome sequence)",
        "C07" => "case = one seeded run: image x endian spec x accessor history x legal reader behaviour; non-trivial = stream opened and at least one query returned Ok content; distinct = distinct hash of (image structural class, endian spec, reader profile shape, op-kind sequence, per-op outcome)",
        "C08" => "case = one seeded run (as C07, images biased to lying headers) or one field x boundary-value sweep case or one huge-table image; non-trivial = stream opened and at least one query returned Ok content; distinct = distinct hash of (image structural class, endian spec, reader profile shape, op-kind sequence, per-op outcome)",
        "C17" => "case = one execution of a workload under one fault schedule (every single-fault placement of each sampled workload, seeded multi-fault schedules, pairs in thorough); non-trivial = the baseline opened and answered at least one query Ok and at least one failure was delivered to the code; distinct = distinct hash of (image class, spec, fault placement(s): op kind/call/fault kind, per-step outcome and fault-delivered flags)",
        "C18" => "case = one (image, crash point or appended suffix, parser) with the full query set compared against the complete file; non-trivial = the prefix still opened; distinct = distinct (image, structure-boundary interval containing the crash point, parser)",
        _ => "",
    }
}

fn assumptions_for(prop: &str) -> Vec<&'static str> {
    let mut v = vec![
        "seeded sampling: a clean batch is evidence, not proof",
        "the harness (elfsim) and its independent header model hdr.rs are trusted",
        "overflow-checks and debug-assertions are enabled for the elf crate in the simulator build",
    ];
    match prop {
        "C06" => {
            v.push("allocation is observed through #[global_allocator]; the panic runtime's own allocations in a panicking call are discarded (panics are C01's subject)");
            v.push("the build clause is a build matrix (cargo check of all 8 feature subsets + one -Zbuild-std=core bare-metal build), not a simulation");
        }
        "C07" => {
            v.push("ParseError variants are not compared (the parsers legitimately differ)");
            v.push("scoped out as the property states: ops designating an SHF_COMPRESSED section; files with a present-but-empty section header table");
        }
        "C08" => {
            v.push("bound per allocation = 4*stream_len + 16384; the number of distinct byte ranges a history asks one stream for is capped as a function of the stream length so that a 48-byte-per-entry cache index stays under the bound");
            v.push("designated sets over-approximate where the crate chooses among candidate sections");
        }
        "C17" => {
            v.push("exhaustive over single-fault placements per sampled workload, sampled over workloads");
            v.push("runs whose fault-free answers depend on the reader's legal behaviour (C07's subject) are counted as inconclusive, not as C17 violations");
        }
        "C18" => {
            v.push("append clause: strict identity on self-contained generated images, preservation of every non-error answer elsewhere (DESIGN.md 5.4)");
            v.push("stream side is read through a well-behaved reader (reader misbehaviour is C07/C17's subject)");
        }
        _ => {}
    }
    v
}

fn level_for(prop: &str) -> &'static str {
    match prop {
        "C17" | "C18" => "fault_enumeration",
        _ => "exploration",
    }
}

struct MatrixResult {
    json: J,
    violations: Vec<(String, String)>, // (command, stderr tail)
    /// failures that do not come from compiling the `elf` crate (missing toolchain, cargo
    /// not runnable, sysroot trouble): harness errors, never verdicts
    env_failures: Vec<String>,
    wall_s: f64,
}

/// A failed cargo invocation counts against the crate only when cargo says that the
/// `elf` crate itself (or the no_std consumer of it) did not compile.
fn is_crate_failure(stderr: &str) -> bool {
    stderr.contains("could not compile `elf`") || stderr.contains("could not compile `nostd-consumer`")
}

/// C06 second sentence: cargo check for all 8 feature subsets + bare-metal build.
fn c06_build_matrix() -> MatrixResult {
    use std::process::Command;
    let t0 = Instant::now();
    let repo = std::env::var("ELFSIM_REPO").unwrap_or_else(|_| "/repo".into());
    let root = sup::verif_root();
    let mut rows = Vec::new();
    let mut violations = Vec::new();
    let mut env_failures: Vec<String> = Vec::new();
    let feats = ["alloc", "std", "to_str"];
    let mut default_ok = true;
    // default build first: if it fails, nothing else is judged (harness/build error)
    let mut cmds: Vec<(String, Vec<String>)> = Vec::new();
    for mask in 0..8u32 {
        let sel: Vec<&str> = (0..3).filter(|i| mask & (1 << i) != 0).map(|i| feats[i]).collect();
        let mut argv: Vec<String> = vec![
            "check".into(),
            "--offline".into(),
            "--lib".into(),
            "--manifest-path".into(),
            format!("{}/Cargo.toml", repo),
            "--target-dir".into(),
            format!("{}/target/matrix", root),
            "--no-default-features".into(),
        ];
        if !sel.is_empty() {
            argv.push("--features".into());
            argv.push(sel.join(","));
        }
        cmds.push((format!("features={{{}}}", sel.join(",")), argv));
    }
    for (label, argv) in cmds {
        let out = Command::new("cargo")
            .args(&argv)
            .env("CARGO_NET_OFFLINE", "true")
            .output();
        let (ok, tail, crate_fail) = match out {
            Ok(o) => {
                let all = String::from_utf8_lossy(&o.stderr).to_string();
                (
                    o.status.success(),
                    all.lines()
                        .rev()
                        .take(12)
                        .collect::<Vec<_>>()
                        .into_iter()
                        .rev()
                        .collect::<Vec<_>>()
                        .join("\n"),
                    is_crate_failure(&all),
                )
            }
            Err(e) => (false, format!("cannot run cargo: {}", e), false),
        };
        let cmdline = format!("cargo {}", argv.join(" "));
        if !ok && !crate_fail {
            env_failures.push(format!("{} :: {}", cmdline, tail));
        }
        rows.push(
            J::obj()
                .with("config", J::Str(label.clone()))
                .with("cmd", J::Str(cmdline.clone()))
                .with("ok", J::Bool(ok)),
        );
        if label == "features={alloc,std,to_str}" && !ok {
            default_ok = false;
        }
        if !ok && crate_fail {
            violations.push((cmdline, tail));
        }
    }
    // bare-metal consumer: only `core` in the sysroot
    let consumer = std::env::var("ELFSIM_CONSUMER_DIR")
        .unwrap_or_else(|_| format!("{}/sim/nostd-consumer", root));
    let argv: Vec<String> = vec![
        "+nightly".into(),
        "build".into(),
        "--offline".into(),
        "-Zbuild-std=core".into(),
        "--target".into(),
        "x86_64-unknown-none".into(),
        "--manifest-path".into(),
        format!("{}/Cargo.toml", consumer),
        "--target-dir".into(),
        format!("{}/target/baremetal", root),
    ];
    let out = Command::new("cargo")
        .args(&argv)
        .env("CARGO_NET_OFFLINE", "true")
        .output();
    let (ok, tail, crate_fail) = match out {
        Ok(o) => {
            let all = String::from_utf8_lossy(&o.stderr).to_string();
            (
                o.status.success(),
                all.lines()
                    .rev()
                    .take(12)
                    .collect::<Vec<_>>()
                    .into_iter()
                    .rev()
                    .collect::<Vec<_>>()
                    .join("\n"),
                is_crate_failure(&all),
            )
        }
        Err(e) => (false, format!("cannot run cargo: {}", e), false),
    };
    let cmdline = format!("cargo {}", argv.join(" "));
    rows.push(
        J::obj()
            .with("config", J::s("no-default-features, -Zbuild-std=core, target x86_64-unknown-none (no std/alloc in sysroot)"))
            .with("cmd", J::Str(cmdline.clone()))
            .with("ok", J::Bool(ok)),
    );
    if !ok && crate_fail {
        violations.push((cmdline, tail));
    } else if !ok {
        env_failures.push(format!("{} :: {}", cmdline, tail));
    }
    if !default_ok {
        // a tree whose default configuration does not build is a harness/build error
        violations.clear();
    }
    MatrixResult {
        json: J::obj()
            .with("default_build_ok", J::Bool(default_ok))
            .with("configs", J::Arr(rows)),
        violations,
        env_failures,
        wall_s: t0.elapsed().as_secs_f64(),
    }
}

fn check_main(
    prop: &str,
    tier: &str,
    workers: u32,
    runs: Option<u64>,
    nostd_bin: Option<String>,
    write_ev: bool,
    self_bin: &str,
) -> i32 {
    let known_props: &[&str] = if cfg!(feature = "stream") {
        &["C06", "C07", "C08", "C17", "C18"]
    } else {
        &["C06"]
    };
    if !known_props.contains(&prop) {
        eprintln!("unknown or unsupported property {}", prop);
        return 2;
    }
    let seed = sup::seed_from_env();
    println!("elfsim: property={} tier={} VERIF_SEED={} workers={}", prop, tier, seed, workers);
    let t0 = Instant::now();
    let wall_cap = std::env::var("ELFSIM_WALL_CAP_S")
        .ok()
        .and_then(|s| s.parse::<u64>().ok())
        .unwrap_or(match tier {
            "quick" => 240,
            _ => 3600,
        });
    let main_args = sup::CheckArgs {
        prop: prop.to_string(),
        tier: tier.to_string(),
        workers,
        worker_bin: self_bin.to_string(),
        runs_override: runs,
        label: format!("{}-std", tier),
        write_evidence: write_ev,
        wall_cap_s: wall_cap,
    };
    let res = sup::run_check(&main_args);
    let mut harness_errors = res.harness_errors.clone();
    let mut total_violations = sup::publish(prop, &res);
    let mut report = res.report.clone();
    let mut distinct = res.distinct;
    let mut extra = J::obj();
    let mut inconclusive = res.inconclusive.clone();

    if prop == "C06" {
        // configuration swarm: the same batch against a no_std / no-alloc build of the crate
        if let Some(bin) = nostd_bin {
            let a2 = sup::CheckArgs {
                worker_bin: bin.clone(),
                label: format!("{}-nostd", tier),
                ..sup::CheckArgs {
                    prop: prop.to_string(),
                    tier: tier.to_string(),
                    workers,
                    worker_bin: String::new(),
                    runs_override: runs,
                    label: String::new(),
                    write_evidence: write_ev,
                    wall_cap_s: wall_cap,
                }
            };
            let r2 = sup::run_check(&a2);
            harness_errors.extend(r2.harness_errors.iter().cloned());
            total_violations += sup::publish(prop, &r2);
            extra.set(
                "no_default_features_build",
                J::obj()
                    .with("evaluations", J::u(r2.report.evaluations))
                    .with("distinct_nontrivial", J::u(r2.distinct))
                    .with("counters", r2.report.to_json().get("counters").cloned().unwrap_or(J::Null)),
            );
            if r2.report.evaluations == 0 {
                harness_errors.push("the no-default-features worker produced no evaluations".into());
            }
            report.evaluations += r2.report.evaluations;
            report.runs += r2.report.runs;
            inconclusive.extend(r2.inconclusive.iter().cloned());
            // distinct: the two configurations explore the same cases; count each once
            distinct = distinct.max(r2.distinct);
        } else {
            extra.set("no_default_features_build", J::s("skipped: --nostd-bin not given"));
        }
        let m = c06_build_matrix();
        extra.set("build_matrix", m.json.clone());
        extra.set("build_matrix_wall_s", J::Float(m.wall_s));
        if m.json.get("default_build_ok").and_then(|b| b.as_bool()) == Some(false) {
            harness_errors.push("default feature set does not build".into());
        }
        for e in m.env_failures.iter() {
            harness_errors.push(format!("build matrix step failed for a reason outside the crate: {}", e));
        }
        for (i, (cmd, tail)) in m.violations.iter().enumerate() {
            let path = format!("{}/replays/C06-build-{}-{}.json", sup::verif_root(), seed, i);
            let j = J::obj()
                .with("property", J::s("C06"))
                .with("mode", J::s("build-matrix"))
                .with("replay_shell_cmd", J::Str(cmd.clone()))
                .with(
                    "expect",
                    J::obj()
                        .with("property", J::s("C06"))
                        .with("clause", J::s("feature-subset-does-not-build"))
                        .with("op", J::s("cargo"))
                        .with("detail", J::Str(tail.clone())),
                );
            let _ = std::fs::create_dir_all(format!("{}/replays", sup::verif_root()));
            if std::fs::write(&path, j.pretty()).is_ok() {
                println!("VIOLATION property=C06 replay={}", path);
                eprintln!("  {}\n{}", cmd, tail);
                total_violations += 1;
            }
        }
    }

    #[cfg(feature = "stream")]
    if (prop == "C07" || prop == "C08") && std::env::var("ELFSIM_PTR32").map(|v| v != "0").unwrap_or(true) {
        // configuration swarm, host pointer width: the same simulator interpreted by Miri for a
        // 32-bit target (usize = 32 bits) on field-sweep images whose 8-byte fields claim more
        // than such a host can address
        let n: u64 = std::env::var("ELFSIM_PTR32_CASES")
            .ok()
            .and_then(|s| s.parse().ok())
            .unwrap_or(if tier == "thorough" { 27 * 4 } else { 16 });
        let (j, viol) = ptr32_pass(prop, seed, n, workers.max(1) as u64, if tier == "thorough" { 900 } else { 90 });
        total_violations += viol;
        extra.set("pointer_width_32_pass", j);
    }

    let wall = t0.elapsed().as_secs_f64();
    // evidence
    let mut faults = J::obj();
    let mut probes = J::obj();
    let mut counters = J::obj();
    for (k, v) in report.counters.iter() {
        if let Some(n) = k.strip_prefix("fault.") {
            faults.set(n, J::u(*v));
        } else if let Some(n) = k.strip_prefix("probe.") {
            probes.set(n, J::u(*v));
        } else {
            counters.set(k, J::u(*v));
        }
    }
    let mut maxima = J::obj();
    for (k, v) in report.maxima.iter() {
        maxima.set(k, J::u(*v));
    }
    let expected_probes: &[&str] = match prop {
        "C07" | "C08" => &[
            "open_ok",
            "open_err",
            "cache_hit",
            "shared_start",
            "shared_end",
            "zero_len_range",
            "xnum_shnum",
            "xnum_phnum",
            "xindex_shstrndx",
            "short_read_fired",
            "eintr_fired",
        ],
        "C17" => &["multi_range_op_fault_after_first_load", "requery_after_fault_ok", "requery_after_fault_err"],
        _ => &[],
    };
    let mut warnings = Vec::new();
    for p in expected_probes {
        if probes.get(p).and_then(|v| v.as_u64()).unwrap_or(0) == 0 {
            warnings.push(J::Str(format!("reach probe '{}' stuck at 0", p)));
        }
    }
    if prop == "C08" && probes.get("oversize_claim_rejected").and_then(|v| v.as_u64()).unwrap_or(0) == 0 {
        warnings.push(J::s("reach probe 'oversize_claim_rejected' stuck at 0"));
    }
    let reach_warnings_text: Vec<String> = warnings
        .iter()
        .filter_map(|w| w.as_str().map(|s| s.to_string()))
        .collect();
    let runs_per_hour = if wall > 0.0 {
        (report.evaluations as f64 / wall * 3600.0) as u64
    } else {
        0
    };
    let mut samples = report.samples.clone();
    if samples.is_empty() {
        samples.push(J::s("no sample recorded (no run completed)"));
    }
    // op kind x outcome grid of stream-side calls (C07/C08/C17)
    let op_names = [
        "open", "segments", "section_headers", "section_headers_with_strtab",
        "section_header_by_name", "section_data", "section_data_as_strtab",
        "section_data_as_rels", "section_data_as_relas", "section_data_as_notes",
        "symbol_table", "dynamic_symbol_table", "dynamic", "symbol_version_table",
        "segment_data_as_notes", "segment_data", "find_common_data",
    ];
    let tag_names = ["Ok", "Err", "Panicked(call)", "Panicked(drain)", "StepCap"];
    let mut grid = J::obj();
    for (i, row) in report.op_grid.iter().enumerate() {
        if row.iter().all(|v| *v == 0) {
            continue;
        }
        let mut r = J::obj();
        for (k, v) in row.iter().enumerate() {
            if *v > 0 {
                r.set(tag_names[k], J::u(*v));
            }
        }
        grid.set(op_names[i], r);
    }
    let coverage = J::obj()
        .with("evaluations", J::u(report.evaluations))
        .with("distinct_nontrivial", J::u(distinct))
        .with("rule", J::s(rule_for(prop)))
        .with("samples", J::Arr(samples))
        .with("exhaustive", J::Bool(false))
        .with("runs", J::u(report.runs))
        .with("runs_planned", J::u(res.planned_runs))
        .with("runs_per_hour", J::u(runs_per_hour))
        .with(
            "seeds",
            J::obj()
                .with("master_seed", J::u(seed))
                .with("run_index_range", J::Arr(vec![J::u(0), J::u(res.planned_runs)]))
                .with("derivation", J::s("run_seed = mix(mix(seed, property), run_index); sub-streams gen/ops/io/fault by SplitMix64, drawn with xoshiro256**")),
        )
        .with("workers", J::u(res.workers as u64))
        .with(
            "sim_time_io_events",
            J::u(report.counters.get("sim_time_io_events").copied().unwrap_or(0)),
        )
        .with("faults_fired", faults)
        .with("probes", probes)
        .with("counters", counters)
        .with("maxima", maxima)
        .with("stream_calls_by_op_and_outcome", grid)
        .with("reach_warnings", J::Arr(warnings))
        .with("inconclusive", J::Arr(inconclusive.clone()))
        .with("known_findings_matched", J::Arr(res.known.iter().map(|s| J::s(s)).collect()))
        .with("components", components())
        .with("extra", extra);
    let ev = J::obj()
        .with("property_id", J::s(prop))
        .with("tier", J::s(tier))
        .with("seed", J::u(seed))
        .with("level", J::s(level_for(prop)))
        .with("coverage", coverage)
        .with(
            "assumptions",
            J::Arr(assumptions_for(prop).iter().map(|s| J::s(s)).collect()),
        )
        .with("wall_s", J::Float(wall))
        .with("violations", J::u(total_violations as u64));
    if write_ev {
        let dir = format!("{}/evidence", sup::verif_root());
        let _ = std::fs::create_dir_all(&dir);
        let path = format!("{}/{}.json", dir, prop);
        if let Err(e) = std::fs::write(&path, ev.pretty()) {
            eprintln!("cannot write evidence: {}", e);
            return 2;
        }
    }
    println!(
        "elfsim: property={} tier={} evaluations={} runs={} distinct_nontrivial={} violations={} inconclusive={} wall_s={:.1}",
        prop,
        tier,
        report.evaluations,
        report.runs,
        distinct,
        total_violations,
        inconclusive.len(),
        wall
    );
    if total_violations > 0 {
        return 1;
    }
    if !harness_errors.is_empty() {
        for e in harness_errors {
            eprintln!("harness error: {}", e);
        }
        return 2;
    }
    if report.evaluations == 0 {
        if !inconclusive.is_empty() {
            eprintln!(
                "no verdict: nothing could be evaluated ({} inconclusive worker deaths / hangs that are not attributable to {})",
                inconclusive.len(),
                prop
            );
        } else {
            eprintln!("harness error: nothing was evaluated");
        }
        return 2;
    }
    if std::env::var("ELFSIM_FAIL_ON_REACH_WARNING").is_ok() && !reach_warnings_text.is_empty() {
        for w in reach_warnings_text {
            eprintln!("reach: {}", w);
        }
        return 2;
    }
    0
}
