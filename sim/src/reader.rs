//! SimReader — the I/O seam. The simulator *is* the `S: Read + Seek` of `ElfStream<E, S>`.
//!
//! Only `read` and `seek` are implemented; every other `Read`/`Seek` method falls through
//! std's default implementations to those two, so all I/O of the code under test is seen.
//! Every call is one event; what the call does is a pure function
//! `decide(run_seed, op_id, call_index_within_op)` of the run seed, unless an explicit
//! override (a fault placement) names that `(op_id, call)`.

use crate::alloc;
use crate::json::J;
use crate::rng::mix3;
use std::cell::RefCell;
use std::io::{self, ErrorKind, Read, Seek, SeekFrom};
use std::rc::Rc;

/// Legal misbehaviour profile of the reader (probabilities are out of 256).
#[derive(Clone, Copy, Debug, PartialEq, Eq)]
pub struct Profile {
    pub short_p: u16,
    pub short_max: u32,
    pub eintr_p: u16,
}

impl Profile {
    pub const FULL: Profile = Profile {
        short_p: 0,
        short_max: 1,
        eintr_p: 0,
    };
    pub fn name(&self) -> String {
        if self.short_p == 0 && self.eintr_p == 0 {
            "full".into()
        } else if self.short_p >= 256 && self.short_max == 1 && self.eintr_p == 0 {
            "1-byte".into()
        } else if self.eintr_p == 0 {
            format!("short(p={}/256,max={})", self.short_p, self.short_max)
        } else if self.short_p == 0 {
            format!("eintr(p={}/256)", self.eintr_p)
        } else {
            format!(
                "short(p={}/256,max={})+eintr(p={}/256)",
                self.short_p, self.short_max, self.eintr_p
            )
        }
    }
    pub fn to_json(&self) -> J {
        J::obj()
            .with("name", J::Str(self.name()))
            .with("short_p", J::u(self.short_p as u64))
            .with("short_max", J::u(self.short_max as u64))
            .with("eintr_p", J::u(self.eintr_p as u64))
    }
    pub fn from_json(j: &J) -> Profile {
        Profile {
            short_p: j.gu("short_p") as u16,
            short_max: (j.gu("short_max") as u32).max(1),
            eintr_p: (j.gu("eintr_p") as u16).min(200),
        }
    }
    pub fn is_full(&self) -> bool {
        self.short_p == 0 && self.eintr_p == 0
    }
}

pub const KINDS: [ErrorKind; 10] = [
    ErrorKind::Other,
    ErrorKind::UnexpectedEof,
    ErrorKind::TimedOut,
    ErrorKind::WouldBlock,
    ErrorKind::PermissionDenied,
    ErrorKind::BrokenPipe,
    ErrorKind::Unsupported,
    ErrorKind::InvalidInput,
    ErrorKind::NotSeekable,
    ErrorKind::Interrupted, // only used for seek faults (a read returning it is legal, not a fault)
];
/// Kinds a failing *read* may carry (everything but Interrupted).
pub const READ_KINDS: usize = 9;

pub fn kind_name(k: ErrorKind) -> &'static str {
    match k {
        ErrorKind::Other => "Other",
        ErrorKind::UnexpectedEof => "UnexpectedEof",
        ErrorKind::TimedOut => "TimedOut",
        ErrorKind::WouldBlock => "WouldBlock",
        ErrorKind::PermissionDenied => "PermissionDenied",
        ErrorKind::BrokenPipe => "BrokenPipe",
        ErrorKind::Interrupted => "Interrupted",
        ErrorKind::InvalidInput => "InvalidInput",
        ErrorKind::Unsupported => "Unsupported",
        ErrorKind::NotSeekable => "NotSeekable",
        _ => "Other",
    }
}
pub fn kind_from(s: &str) -> ErrorKind {
    for k in KINDS.iter() {
        if kind_name(*k) == s {
            return *k;
        }
    }
    ErrorKind::Other
}

/// A fault decision placed at one `(op_id, call)`.
#[derive(Clone, Copy, Debug, PartialEq, Eq)]
pub enum Fault {
    /// read or seek returns Err(kind); nothing consumed / position unchanged
    Fail { kind: ErrorKind, sticky: bool },
    /// read returns Ok(0) although bytes are available
    EofEarly { sticky: bool },
    /// read delivers k bytes now; the next read of the stream fails with kind
    PartialThenFail { k: u32, kind: ErrorKind },
    /// NOT a fault: a legal short read of k bytes placed at one call (the first half of
    /// PartialThenFail without the failure). Used to tell a short-read sensitivity (C07's
    /// subject) from a fault residue.
    Short { k: u32 },
}

impl Fault {
    pub fn name(&self) -> &'static str {
        match self {
            Fault::Fail { sticky: false, .. } => "fail_transient",
            Fault::Fail { sticky: true, .. } => "fail_sticky",
            Fault::EofEarly { sticky: false } => "eof_early_transient",
            Fault::EofEarly { sticky: true } => "eof_early_sticky",
            Fault::PartialThenFail { .. } => "partial_then_fail",
            Fault::Short { .. } => "legal_short_read",
        }
    }
    pub fn to_json(&self) -> J {
        match *self {
            Fault::Fail { kind, sticky } => J::obj()
                .with("decision", J::s("Fail"))
                .with("kind", J::s(kind_name(kind)))
                .with("sticky", J::Bool(sticky)),
            Fault::EofEarly { sticky } => J::obj()
                .with("decision", J::s("EofEarly"))
                .with("sticky", J::Bool(sticky)),
            Fault::PartialThenFail { k, kind } => J::obj()
                .with("decision", J::s("PartialThenFail"))
                .with("k", J::u(k as u64))
                .with("kind", J::s(kind_name(kind))),
            Fault::Short { k } => J::obj()
                .with("decision", J::s("Short"))
                .with("k", J::u(k as u64)),
        }
    }
    pub fn from_json(j: &J) -> Option<Fault> {
        let sticky = j.get("sticky").and_then(|b| b.as_bool()).unwrap_or(false);
        match j.gs("decision") {
            "Fail" => Some(Fault::Fail {
                kind: kind_from(j.gs("kind")),
                sticky,
            }),
            "EofEarly" => Some(Fault::EofEarly { sticky }),
            "PartialThenFail" => Some(Fault::PartialThenFail {
                k: j.gu("k") as u32,
                kind: kind_from(j.gs("kind")),
            }),
            "Short" => Some(Fault::Short { k: j.gu("k") as u32 }),
            _ => None,
        }
    }
}

#[derive(Clone, Copy, Debug, PartialEq, Eq)]
pub struct Override {
    pub op_id: u32,
    pub call: u32,
    pub fault: Fault,
}

impl Override {
    pub fn to_json(&self) -> J {
        let mut j = self.fault.to_json();
        let mut o = J::obj()
            .with("op_id", J::u(self.op_id as u64))
            .with("call", J::u(self.call as u64));
        if let J::Obj(kv) = &mut j {
            for (k, v) in kv.drain(..) {
                o.set(&k, v);
            }
        }
        o
    }
    pub fn from_json(j: &J) -> Option<Override> {
        Some(Override {
            op_id: j.gu("op_id") as u32,
            call: j.gu("call") as u32,
            fault: Fault::from_json(j)?,
        })
    }
}

/// Reader configuration of a scenario: everything the reader's behaviour depends on.
#[derive(Clone, Debug, PartialEq, Eq)]
pub struct ReaderCfg {
    pub run_seed: u64,
    pub profile: Profile,
    pub init_pos: u64,
    pub overrides: Vec<Override>,
    /// a sticky fault is lifted ("device comes back") when the epilogue starts
    pub heal_at_epilogue: bool,
    /// after the first delivered failure the reader behaves cleanly (full reads, no EINTR):
    /// legal misbehaviour leads up to and surrounds the fault, but what happens afterwards
    /// cannot be an effect of short reads (C17 multi-fault runs)
    pub clean_after_failure: bool,
}

impl ReaderCfg {
    pub fn well_behaved() -> ReaderCfg {
        ReaderCfg {
            run_seed: 0,
            profile: Profile::FULL,
            init_pos: 0,
            overrides: Vec::new(),
            heal_at_epilogue: false,
            clean_after_failure: false,
        }
    }
    pub fn to_json(&self) -> J {
        J::obj()
            .with("run_seed", J::u(self.run_seed))
            .with("profile", self.profile.to_json())
            .with("init_pos", J::u(self.init_pos))
            .with("heal_at_epilogue", J::Bool(self.heal_at_epilogue))
            .with("clean_after_failure", J::Bool(self.clean_after_failure))
            .with(
                "overrides",
                J::Arr(self.overrides.iter().map(|o| o.to_json()).collect()),
            )
    }
    pub fn from_json(j: &J) -> ReaderCfg {
        ReaderCfg {
            run_seed: j.gu("run_seed"),
            profile: j
                .get("profile")
                .map(Profile::from_json)
                .unwrap_or(Profile::FULL),
            init_pos: j.gu("init_pos"),
            heal_at_epilogue: j
                .get("heal_at_epilogue")
                .and_then(|b| b.as_bool())
                .unwrap_or(false),
            clean_after_failure: j
                .get("clean_after_failure")
                .and_then(|b| b.as_bool())
                .unwrap_or(false),
            overrides: j
                .get("overrides")
                .and_then(|a| a.as_arr())
                .map(|a| a.iter().filter_map(Override::from_json).collect())
                .unwrap_or_default(),
        }
    }
}

#[derive(Clone, Copy, Debug)]
pub struct Event {
    pub seq: u64,
    pub op_id: u32,
    pub call: u32,
    /// 0 = read, 1 = seek
    pub kind: u8,
    pub pos_before: u64,
    /// read: requested length; seek: encoded target
    pub req: u64,
    /// decision code (see DEC_*)
    pub dec: u8,
    /// read: delivered length; seek: new position; on error: -(1 + kind index)
    pub result: i64,
}

pub const DEC_FULL: u8 = 0;
pub const DEC_SHORT: u8 = 1;
pub const DEC_EINTR: u8 = 2;
pub const DEC_FAIL: u8 = 3;
pub const DEC_EOF_EARLY: u8 = 4;
pub const DEC_PARTIAL: u8 = 5;
pub const DEC_STICKY: u8 = 6;
pub const DEC_PENDING_FAIL: u8 = 7;
pub const DEC_SEEK_OK: u8 = 8;
pub const DEC_SEEK_INVALID: u8 = 9;

pub fn dec_name(d: u8) -> &'static str {
    match d {
        DEC_FULL => "Full",
        DEC_SHORT => "Short",
        DEC_EINTR => "Interrupted",
        DEC_FAIL => "Fail",
        DEC_EOF_EARLY => "EofEarly",
        DEC_PARTIAL => "PartialThenFail",
        DEC_STICKY => "StickyFail",
        DEC_PENDING_FAIL => "PendingFail",
        DEC_SEEK_OK => "SeekOk",
        DEC_SEEK_INVALID => "SeekInvalid",
        _ => "?",
    }
}

/// Marker payload used to break out of a call that spins on the reader.
pub struct StepCapHit;

pub const STEP_CAP_PER_OP: u32 = 200_000;
const EVENT_LOG_CAP: usize = 4096;

#[derive(Clone, Copy, Debug, Default)]
pub struct FaultCounters {
    pub fail_transient: u64,
    pub fail_sticky: u64,
    pub eof_early_transient: u64,
    pub eof_early_sticky: u64,
    pub partial_then_fail: u64,
    pub pending_fail: u64,
    pub sticky_repeat: u64,
    pub seek_fail: u64,
    pub short_reads: u64,
    pub eintr: u64,
    pub reads: u64,
    pub seeks: u64,
}

pub struct ReaderState {
    pub image: Vec<u8>,
    pub pos: u64,
    pub cfg: ReaderCfg,
    pub cur_op: u32,
    pub call_in_op: u32,
    pub seq: u64,
    pub sticky: Option<Fault>,
    pub pending_fail: Option<ErrorKind>,
    /// a non-legal failure was delivered to the code during the current op
    pub failure_in_op: bool,
    /// ... ever, on this stream
    pub failure_ever: bool,
    /// a failure other than a transient `Interrupted` seek was delivered during this op
    pub hard_failure_in_op: bool,
    /// byte ranges delivered during the current op (merged when contiguous)
    pub delivered: Vec<(u64, u64)>,
    pub events_in_op: u32,
    pub events: Vec<Event>,
    pub events_dropped: u64,
    pub step_cap_hit: bool,
    pub counters: FaultCounters,
    pub log_enabled: bool,
}

impl ReaderState {
    pub fn new(image: Vec<u8>, cfg: ReaderCfg) -> ReaderState {
        let pos = cfg.init_pos;
        ReaderState {
            image,
            pos,
            cfg,
            cur_op: 0,
            call_in_op: 0,
            seq: 0,
            sticky: None,
            pending_fail: None,
            failure_in_op: false,
            failure_ever: false,
            hard_failure_in_op: false,
            delivered: Vec::with_capacity(64),
            events_in_op: 0,
            events: Vec::with_capacity(EVENT_LOG_CAP),
            events_dropped: 0,
            step_cap_hit: false,
            counters: FaultCounters::default(),
            log_enabled: true,
        }
    }

    pub fn begin_op(&mut self, op_id: u32) {
        self.cur_op = op_id;
        self.call_in_op = 0;
        self.events_in_op = 0;
        self.failure_in_op = false;
        self.hard_failure_in_op = false;
        self.step_cap_hit = false;
        self.delivered.clear();
    }

    pub fn heal(&mut self) {
        self.sticky = None;
        self.pending_fail = None;
    }

    fn log(&mut self, ev: Event) {
        if !self.log_enabled {
            return;
        }
        if self.events.len() < EVENT_LOG_CAP {
            self.events.push(ev);
        } else {
            self.events_dropped += 1;
        }
    }

    fn find_override(&self) -> Option<Fault> {
        for o in self.cfg.overrides.iter() {
            if o.op_id == self.cur_op && o.call == self.call_in_op {
                return Some(o.fault);
            }
        }
        None
    }

    fn note_delivered(&mut self, start: u64, end: u64) {
        if end <= start {
            return;
        }
        if let Some(last) = self.delivered.last_mut() {
            if last.1 == start {
                last.1 = end;
                return;
            }
        }
        self.delivered.push((start, end));
    }

    fn tick(&mut self) {
        self.events_in_op += 1;
        // a 1-byte reader with EINTR legitimately needs a few calls per byte: the cap
        // scales with the stream so that only a call that spins can reach it
        let cap = (STEP_CAP_PER_OP as u64).saturating_add(16 * self.image.len() as u64);
        if self.events_in_op as u64 > cap {
            self.step_cap_hit = true;
            alloc::set_scope(alloc::OFF);
            std::panic::panic_any(StepCapHit);
        }
    }
}

/// Build the error a failing call returns. Real devices report failures with an OS error
/// code; half of the injected errors (chosen by the event's sequence number) therefore carry
/// one (`io::Error::from_raw_os_error`, which maps to the same `ErrorKind`), the other half
/// are bare kinds. Neither constructor allocates.
fn make_err(kind: ErrorKind, seq: u64) -> io::Error {
    let raw = match kind {
        ErrorKind::WouldBlock => Some(11),       // EAGAIN
        ErrorKind::Interrupted => Some(4),       // EINTR
        ErrorKind::TimedOut => Some(110),        // ETIMEDOUT
        ErrorKind::PermissionDenied => Some(13), // EACCES
        ErrorKind::BrokenPipe => Some(32),       // EPIPE
        ErrorKind::Unsupported => Some(38),      // ENOSYS
        ErrorKind::InvalidInput => Some(22),     // EINVAL
        ErrorKind::NotSeekable => Some(29),      // ESPIPE
        ErrorKind::Other => Some(5),             // EIO (kind Uncategorized on current std)
        _ => None,
    };
    match raw {
        Some(code) if seq % 2 == 1 && kind != ErrorKind::Other => io::Error::from_raw_os_error(code),
        _ => io::Error::from(kind),
    }
}

fn err_code(kind: ErrorKind) -> i64 {
    let idx = KINDS.iter().position(|k| *k == kind).unwrap_or(0) as i64;
    -(1 + idx)
}

/// Pure decision function of the legal-misbehaviour profile.
#[inline]
pub fn decide(run_seed: u64, op_id: u32, call: u32, p: &Profile) -> (u8, u32) {
    if p.short_p == 0 && p.eintr_p == 0 {
        return (DEC_FULL, 0);
    }
    let h = mix3(run_seed, op_id as u64, call as u64);
    let a = (h & 0xff) as u16;
    let b = ((h >> 8) & 0xff) as u16;
    if a < p.eintr_p {
        return (DEC_EINTR, 0);
    }
    if b < p.short_p {
        let k = 1 + ((h >> 16) % (p.short_max.max(1) as u64)) as u32;
        return (DEC_SHORT, k);
    }
    (DEC_FULL, 0)
}

#[derive(Clone)]
pub struct SimReader {
    pub st: Rc<RefCell<ReaderState>>,
}

impl SimReader {
    pub fn new(st: Rc<RefCell<ReaderState>>) -> SimReader {
        SimReader { st }
    }
}

impl Read for SimReader {
    fn read(&mut self, buf: &mut [u8]) -> io::Result<usize> {
        let _g = alloc::ScopeGuard::enter(alloc::OFF);
        let mut guard = self.st.borrow_mut();
        let s = &mut *guard;
        s.tick();
        s.counters.reads += 1;
        let seq = s.seq;
        s.seq += 1;
        let call = s.call_in_op;
        let pos_before = s.pos;
        let len = s.image.len() as u64;
        let avail = len.saturating_sub(s.pos);
        let want = buf.len() as u64;
        let mut ev = Event {
            seq,
            op_id: s.cur_op,
            call,
            kind: 0,
            pos_before,
            req: want,
            dec: DEC_FULL,
            result: 0,
        };
        let fault = s.find_override();
        s.call_in_op += 1;

        if buf.is_empty() {
            s.log(ev);
            return Ok(0);
        }

        // 1. a pending failure (second half of PartialThenFail)
        if let Some(kind) = s.pending_fail.take() {
            s.counters.pending_fail += 1;
            s.failure_in_op = true;
                    s.hard_failure_in_op = true;
            s.failure_ever = true;
            ev.dec = DEC_PENDING_FAIL;
            ev.result = err_code(kind);
            s.log(ev);
            return Err(make_err(kind, seq));
        }
        // 2. a sticky fault in force
        if let Some(f) = s.sticky {
            s.counters.sticky_repeat += 1;
            ev.dec = DEC_STICKY;
            match f {
                Fault::EofEarly { .. } => {
                    if avail > 0 {
                        s.failure_in_op = true;
                    s.hard_failure_in_op = true;
                        s.failure_ever = true;
                    }
                    ev.result = 0;
                    s.log(ev);
                    return Ok(0);
                }
                Fault::Fail { kind, .. } | Fault::PartialThenFail { kind, .. } => {
                    s.failure_in_op = true;
                    s.hard_failure_in_op = true;
                    s.failure_ever = true;
                    ev.result = err_code(kind);
                    s.log(ev);
                    return Err(make_err(kind, seq));
                }
                Fault::Short { .. } => {}
            }
        }
        // 3. an explicit fault placement
        if let Some(f) = fault {
            match f {
                Fault::Fail { kind, sticky } => {
                    if sticky {
                        s.sticky = Some(f);
                        s.counters.fail_sticky += 1;
                    } else {
                        s.counters.fail_transient += 1;
                    }
                    s.failure_in_op = true;
                    s.hard_failure_in_op = true;
                    s.failure_ever = true;
                    ev.dec = DEC_FAIL;
                    ev.result = err_code(kind);
                    s.log(ev);
                    return Err(make_err(kind, seq));
                }
                Fault::EofEarly { sticky } => {
                    if sticky {
                        s.sticky = Some(f);
                        s.counters.eof_early_sticky += 1;
                    } else {
                        s.counters.eof_early_transient += 1;
                    }
                    if avail > 0 {
                        s.failure_in_op = true;
                    s.hard_failure_in_op = true;
                        s.failure_ever = true;
                    }
                    ev.dec = DEC_EOF_EARLY;
                    ev.result = 0;
                    s.log(ev);
                    return Ok(0);
                }
                Fault::Short { k } => {
                    let n = (k.max(1) as u64).min(want).min(avail) as usize;
                    let p = s.pos as usize;
                    if n > 0 {
                        buf[..n].copy_from_slice(&s.image[p..p + n]);
                    }
                    s.pos += n as u64;
                    s.note_delivered(pos_before, pos_before + n as u64);
                    s.counters.short_reads += 1;
                    ev.dec = DEC_SHORT;
                    ev.result = n as i64;
                    s.log(ev);
                    return Ok(n);
                }
                Fault::PartialThenFail { k, kind } => {
                    s.counters.partial_then_fail += 1;
                    s.pending_fail = Some(kind);
                    let n = (k.max(1) as u64).min(want).min(avail) as usize;
                    let p = s.pos as usize;
                    if n > 0 {
                        buf[..n].copy_from_slice(&s.image[p..p + n]);
                    }
                    s.pos += n as u64;
                    s.note_delivered(pos_before, pos_before + n as u64);
                    ev.dec = DEC_PARTIAL;
                    ev.result = n as i64;
                    s.log(ev);
                    return Ok(n);
                }
            }
        }
        // 4. legal behaviour per profile
        let (dec, k) = if s.cfg.clean_after_failure && s.failure_ever {
            (DEC_FULL, 0)
        } else {
            decide(s.cfg.run_seed, s.cur_op, call, &s.cfg.profile)
        };
        match dec {
            DEC_EINTR => {
                s.counters.eintr += 1;
                ev.dec = DEC_EINTR;
                ev.result = err_code(ErrorKind::Interrupted);
                s.log(ev);
                Err(make_err(ErrorKind::Interrupted, seq))
            }
            _ => {
                let mut n = want.min(avail);
                if dec == DEC_SHORT {
                    let kk = (k as u64).max(1);
                    if kk < n {
                        n = kk;
                        s.counters.short_reads += 1;
                        ev.dec = DEC_SHORT;
                    }
                }
                let n = n as usize;
                if n > 0 {
                    let p = s.pos as usize;
                    buf[..n].copy_from_slice(&s.image[p..p + n]);
                }
                s.pos += n as u64;
                s.note_delivered(pos_before, pos_before + n as u64);
                ev.result = n as i64;
                s.log(ev);
                Ok(n)
            }
        }
    }
}

impl Seek for SimReader {
    fn seek(&mut self, to: SeekFrom) -> io::Result<u64> {
        let _g = alloc::ScopeGuard::enter(alloc::OFF);
        let mut guard = self.st.borrow_mut();
        let s = &mut *guard;
        s.tick();
        s.counters.seeks += 1;
        let seq = s.seq;
        s.seq += 1;
        let call = s.call_in_op;
        let pos_before = s.pos;
        let len = s.image.len() as u64;
        let req = match to {
            SeekFrom::Start(o) => o,
            SeekFrom::End(d) => (d as u64) ^ 0x4000_0000_0000_0000,
            SeekFrom::Current(d) => (d as u64) ^ 0x2000_0000_0000_0000,
        };
        let mut ev = Event {
            seq,
            op_id: s.cur_op,
            call,
            kind: 1,
            pos_before,
            req,
            dec: DEC_SEEK_OK,
            result: 0,
        };
        let fault = s.find_override();
        s.call_in_op += 1;

        if let Some(f) = s.sticky {
            if let Fault::Fail { kind, .. } = f {
                s.counters.sticky_repeat += 1;
                s.failure_in_op = true;
                    s.hard_failure_in_op = true;
                s.failure_ever = true;
                ev.dec = DEC_STICKY;
                ev.result = err_code(kind);
                s.log(ev);
                return Err(make_err(kind, seq));
            }
        }
        if let Some(Fault::Fail { kind, sticky }) = fault {
            if sticky {
                s.sticky = fault;
            }
            s.counters.seek_fail += 1;
            s.failure_in_op = true;
            if sticky || kind != ErrorKind::Interrupted {
                s.hard_failure_in_op = true;
            }
            s.failure_ever = true;
            ev.dec = DEC_FAIL;
            ev.result = err_code(kind);
            s.log(ev);
            return Err(make_err(kind, seq));
        }
        let target: Option<u64> = match to {
            SeekFrom::Start(o) => Some(o),
            SeekFrom::End(d) => {
                if d >= 0 {
                    len.checked_add(d as u64)
                } else {
                    len.checked_sub(d.unsigned_abs())
                }
            }
            SeekFrom::Current(d) => {
                if d >= 0 {
                    s.pos.checked_add(d as u64)
                } else {
                    s.pos.checked_sub(d.unsigned_abs())
                }
            }
        };
        match target {
            Some(t) => {
                s.pos = t;
                ev.result = t as i64;
                s.log(ev);
                Ok(t)
            }
            None => {
                // contract: seeking to a negative / overflowing offset is an error
                ev.dec = DEC_SEEK_INVALID;
                ev.result = err_code(ErrorKind::Other);
                s.log(ev);
                Err(io::Error::from(ErrorKind::InvalidInput))
            }
        }
    }
}

pub fn event_json(e: &Event) -> J {
    J::obj()
        .with("seq", J::u(e.seq))
        .with("op_id", J::u(e.op_id as u64))
        .with("call", J::u(e.call as u64))
        .with("kind", J::s(if e.kind == 0 { "read" } else { "seek" }))
        .with("pos_before", J::u(e.pos_before))
        .with("req", J::u(e.req))
        .with("decision", J::s(dec_name(e.dec)))
        .with("result", J::i(e.result))
}
