#!/bin/bash
# Apply each patch in sensitivity/patches (or the given ones) to /repo, run the quick checks,
# record exit codes, undo. Usage: sensitivity/run.sh [patch.diff ...]
ROOT=/verif
cd $ROOT
patches=("$@"); [ ${#patches[@]} -eq 0 ] && patches=($ROOT/sensitivity/patches/*.diff)
printf "%-34s %s\n" patch "C06 C07 C08 C17 C18"
for p in "${patches[@]}"; do
  git -C /repo checkout -q -- . ; git -C /repo clean -fdq src tests ; 
  if ! git -C /repo apply "$p" 2>/dev/null; then printf "%-34s apply-failed\n" "$(basename $p .diff)"; continue; fi
  row=""
  for c in ${CHECKS:-C06 C07 C08 C17 C18}; do
    ./check $c ${TIER:-quick} > $ROOT/work/sens-$c.log 2>&1; rc=$?
    n=$(grep -c '^VIOLATION' $ROOT/work/sens-$c.log)
    row="$row $c:$rc/$n"
  done
  git -C /repo checkout -q -- . ; git -C /repo clean -fdq src tests
  printf "%-34s %s\n" "$(basename $p .diff)" "$row"
done
git -C /repo status --short
